"""
C01 - pilot resources are never oversubscribed.

Inductive-step encoding: arbitrary (reachable-shape) occupancy map, one real
operation, compare.  Real code: Continuous._find_resources / schedule_task /
_iterate_nodes, AgentSchedulingComponent._try_allocation /
_change_slot_states / _schedule_incoming (application-supplied slots), and the
client-side Node / NodeList slot finder (resource_config.py).
"""

from vfw.api import obligation, check, reach, trace, real, conc
from harness import sched as S
from harness.sched import FREE, BUSY, DOWN, CSTATE

import radical.pilot.resource_config as m_rc

META = {
    'explanation':
        'Inductive step, decided by bounded symbolic execution (CrossHair+z3) '
        'of the real scheduler code: the pre-state is an arbitrary occupancy '
        'map (every core/GPU cell FREE, BUSY or DOWN; the representation '
        'invariant of _change_slot_states), one grant is computed by the real '
        'Continuous._find_resources / schedule_task / _try_allocation / '
        '_change_slot_states (or by the client-side Node/NodeList finder) for '
        'a symbolic request, and the granted slots are compared with the '
        'pre-state: only FREE cells, no cell twice, GPU shares per GPU sum to '
        '<= 1, lfs/mem within what the node has left, DOWN never handed out, '
        'map afterwards == map before + grant.  One step from an arbitrary '
        'state covers grant/release histories of any length.',
    'assumes': ['GPU cells of the agent map are FREE/BUSY/DOWN only '
                '(_change_slot_states never stores a fraction)',
                'agent nodes are excluded from the node list by the resource '
                'manager (C18), so "reserved nodes" reduces to: every slot '
                'lies on a node of the list']}

GAMT = [0.0, 0.5, 1.0, 2.0, 0.25]


def _cells(code, n):
    # base-3 digits of `code` -> n cell states
    out = []
    for _ in range(n):
        out.append(CSTATE[code % 3])
        code //= 3
    return out


# ------------------------------------------------------------------------------
@obligation(params={'cc': (0, 80), 'gc': (0, 8), 'n_slots': (1, 3),
                    'cps': (1, 2), 'ga': (0, 4), 'partial': 'bool'},
            shapes={'quick': [{'nc': 2, 'ng': 2, '_ranges': {'cc': (0, 8)}}],
                    'thorough': [{'nc': 4, 'ng': 2},
                                 {'nc': 3, 'ng': 1, '_ranges': {'cc': (0, 26),
                                                                'gc': (0, 2)}}]},
            partition={'quick': ('cc', 9), 'thorough': ('cc', 27)},
            timeout={'quick': 300, 'thorough': 1200},
            funcs=['radical/pilot/agent/scheduler/continuous.py:'
                   'Continuous._find_resources'],
            bounds='one node with nc cores x ng GPUs, every cell FREE/BUSY/'
                   'DOWN; n_slots 1..3, cores per slot 1..2, GPU amount in '
                   '{0, .25, .5, 1, 2}, partial on/off',
            stubs=['_log no-op', 'pprint.pformat -> empty'])
def h_find_resources(cc, gc, n_slots, cps, ga, partial, nc=3, ng=2):
    """_find_resources hands out only free, distinct resources of one node"""
    if cc >= 3 ** nc or gc >= 3 ** ng: return
    cc, gc, ga = conc(cc, 0, 3 ** nc - 1), conc(gc, 0, 3 ** ng - 1), conc(ga, 0, 4)
    n_slots, cps = conc(n_slots, 1, 3), conc(cps, 1, 2)
    node  = S.mk_nodes([_cells(cc, nc)], [_cells(gc, ng)], 0, 0)[0]
    sched = S.mk_sched([node], nc, ng)
    pre   = S.snapshot([node])
    gpr   = GAMT[ga]
    try:
        slots = sched._find_resources(node, n_slots, cps, gpr, 0, 0, partial)
    except TypeError as e:
        # a blocked (DOWN) GPU makes the share arithmetic raise: the request
        # is refused, nothing was handed out (liveness is C04's business)
        check(DOWN in node['gpus'] and 0 < gpr < 1, 'unexpected %r', e)
        return
    check(S.snapshot([node]) == pre, '_find_resources changed the node map')
    if slots is None:
        return
    reach()
    trace('node', pre, 'req', n_slots, cps, gpr, partial, 'slots', slots)
    check(len(slots) <= n_slots, 'more slots than requested')
    if not partial:
        check(len(slots) == n_slots, 'fewer slots without partial')
    S.check_no_oversubscription(pre, slots)
    for s in slots:
        check(len(s['cores']) == cps, 'slot with %s cores', len(s['cores']))


# ------------------------------------------------------------------------------
@obligation(params={'ca': (0, 26), 'cb': (0, 26), 'ranks': (1, 3), 'cpr': (1, 2),
                    'ga': (0, 2), 'rpn': (0, 2), 'scattered': 'bool',
                    'offset': (0, 1)},
            shapes={'quick': [{'bfull': False, 'rmax': 2, 'nb': 2, 'rpnmax': 1}],
                    'thorough': [{'bfull': True}]},
            partition={'quick': ('ca', 14), 'thorough': ('ca', 27)},
            timeout={'quick': 300, 'thorough': 1800},
            funcs=['radical/pilot/agent/scheduler/continuous.py:'
                   'Continuous.schedule_task',
                   'radical/pilot/agent/scheduler/base.py:'
                   'AgentSchedulingComponent._try_allocation',
                   'radical/pilot/agent/scheduler/base.py:'
                   'AgentSchedulingComponent._change_slot_states'],
            bounds='2 nodes x 2 cores x 1 GPU; node A: every cell FREE/BUSY/'
                   'DOWN (27 states); node B: quick 2 states (free; core 0 '
                   'busy), thorough all 27; ranks 1..3 (quick 1..2), cores/'
                   'rank 1..2, GPUs/rank {0,.5,1}, ranks_per_node {none,1,2} '
                   '(quick {none,1}), scattered on/off, '
                   'node iteration offset 0/1',
            stubs=['_log/_prof no-op', 'pprint.pformat -> empty',
                   'advance -> recorder'])
def h_schedule_task(ca, cb, ranks, cpr, ga, rpn, scattered, offset,
                    bfull=False, rmax=3, nb=4, rpnmax=2):
    """one grant through schedule_task/_try_allocation never oversubscribes"""
    if ranks > rmax or rpn > rpnmax: return
    ca, ga, offset = conc(ca, 0, 26), conc(ga, 0, 2), conc(offset, 0, 1)
    if bfull:
        if cb > 26: return
        cb     = conc(cb, 0, 26)
        bcells = _cells(cb, 3)
    else:
        if cb >= nb: return
        bcells = [[FREE, FREE, FREE], [BUSY, FREE, FREE],
                  [BUSY, BUSY, BUSY], [FREE, DOWN, BUSY]][conc(cb, 0, 3)]
    acells = _cells(ca, 3)
    ranks, cpr, rpn = conc(ranks, 1, 3), conc(cpr, 1, 2), conc(rpn, 0, 2)
    nodes  = S.mk_nodes([acells[:2], bcells[:2]], [acells[2:], bcells[2:]],
                        0, 0)
    sched  = S.mk_sched(nodes, 2, 1, scattered=scattered, offset=offset,
                        active=1)
    pre    = S.snapshot(nodes)
    task   = S.mk_task('t0', ranks=ranks, cpr=cpr, gpr=GAMT[ga],
                       rpn=rpn or None)
    try:
        ok = sched._try_allocation(task)
    except (ValueError, AssertionError, RuntimeError, TypeError) as e:
        # refusal: nothing may have been marked
        check(S.snapshot(nodes) == pre, 'refused (%r) but map changed', e)
        check('slots' not in task, 'refused but slots attached')
        return
    post = S.snapshot(nodes)
    if not ok:
        check(post == pre, 'no placement but map changed')
        return
    reach()
    slots = task['slots']
    trace('pre', pre, 'task', task['description'], 'slots', slots)
    S.check_no_oversubscription(pre, slots)
    S.check_marked(pre, post, slots)


# ------------------------------------------------------------------------------
LFS_LEFT = [0, 40, 100]
LFS_REQ  = [0, 30, 60, 100, 101]


@obligation(params={'la': (0, 2), 'lb': (0, 2), 'ma': (0, 2), 'lreq': (0, 4),
                    'mreq': (0, 4), 'ranks': (1, 3), 'busy_a': 'bool'},
            shapes={'quick': [{'small': True}], 'thorough': [{'small': False}]},
            timeout={'quick': 300, 'thorough': 900},
            partition={'quick': ('lreq', 5), 'thorough': ('lreq', 5)},
            funcs=['radical/pilot/agent/scheduler/continuous.py:'
                   'Continuous.schedule_task',
                   'radical/pilot/agent/scheduler/continuous.py:'
                   'Continuous._find_resources',
                   'radical/pilot/agent/scheduler/base.py:'
                   'AgentSchedulingComponent._change_slot_states'],
            bounds='2 nodes x 3 cores, lfs/mem per node 100; lfs left on node '
                   'A/B and mem left on node A from {0,40,100}; per-rank lfs '
                   'and mem from {0,30,60,100,101}; ranks 1..3 (quick: mem '
                   'left {40,100}, per-rank mem {0,60})',
            stubs=['_log/_prof no-op'])
def h_lfs_mem(la, lb, ma, lreq, mreq, ranks, busy_a, small=False):
    """node-local storage / memory granted never exceed what the node has"""
    if small and (ma == 0 or mreq not in (0, 2)): return
    ranks   = conc(ranks, 1, 3)
    la, lb, ma = conc(la, 0, 2), conc(lb, 0, 2), conc(ma, 0, 2)
    lreq, mreq = conc(lreq, 0, 4), conc(mreq, 0, 4)
    cores_a = [BUSY if busy_a else FREE, FREE, FREE]
    nodes = S.mk_nodes([cores_a, [FREE] * 3], [[], []],
                       [LFS_LEFT[la], LFS_LEFT[lb]], [LFS_LEFT[ma], 100])
    sched = S.mk_sched(nodes, 3, 0, lfs_per_node=100, mem_per_node=100,
                       active=1)
    pre   = S.snapshot(nodes)
    task  = S.mk_task('t0', ranks=ranks, cpr=1, lfs=LFS_REQ[lreq],
                      mem=LFS_REQ[mreq])
    try:
        ok = sched._try_allocation(task)
    except (ValueError, AssertionError, RuntimeError) as e:
        check(S.snapshot(nodes) == pre, 'refused (%r) but map changed', e)
        return
    if not ok:
        check(S.snapshot(nodes) == pre, 'no placement but map changed')
        return
    reach()
    slots = task['slots']
    trace('pre', pre, 'lfs/mem req', LFS_REQ[lreq], LFS_REQ[mreq], 'ranks',
          ranks, 'slots', [(s['node_index'], s['lfs'], s['mem'])
                           for s in slots])
    S.check_no_oversubscription(pre, slots)
    S.check_marked(pre, S.snapshot(nodes), slots)


# ------------------------------------------------------------------------------
@obligation(params={'n0': (0, 1), 'cm': (1, 7), 'gm': (0, 1), 'ranks2': (1, 2),
                    'cpr2': (1, 2), 'ga2': (0, 2)},
            timeout={'quick': 300, 'thorough': 900},
            partition={'quick': ('cm', 7), 'thorough': ('cm', 7)},
            funcs=['radical/pilot/agent/scheduler/base.py:'
                   'AgentSchedulingComponent._schedule_incoming',
                   'radical/pilot/agent/scheduler/base.py:'
                   'AgentSchedulingComponent._try_allocation'],
            bounds='idle pilot of 2 nodes x 3 cores x 1 GPU; task 1 arrives '
                   'with application-supplied slots (node index, core bit mask '
                   'over 3 cores, GPU on/off), task 2 (ranks 1..2, cores/rank '
                   '1..2, GPU {0,.5,1}) is placed by the scheduler while task 1 '
                   'is unreleased',
            stubs=['mp.Queue -> in-memory queue', 'advance -> recorder'])
def h_app_slots(n0, cm, gm, ranks2, cpr2, ga2):
    """application-supplied placements are honoured by later grants"""
    nodes = S.mk_nodes([[FREE] * 3, [FREE] * 3], [[FREE], [FREE]], 0, 0)
    sched = S.mk_sched(nodes, 3, 1)
    n0, cm, gm = conc(n0, 0, 1), conc(cm, 1, 7), conc(gm, 0, 1)
    ranks2, cpr2 = conc(ranks2, 1, 2), conc(cpr2, 1, 2)
    ga2 = conc(ga2, 0, 2)
    cores = [i for i in range(3) if (cm >> i) & 1]
    slot  = {'cores': [{'index': i, 'occupation': 1.0} for i in cores],
             'gpus' : [{'index': 0, 'occupation': 1.0}] if gm else [],
             'lfs': 0, 'mem': 0, 'node_index': n0, 'node_name': 'node%d' % n0,
             'version': 1}
    t1 = S.mk_task('t1', ranks=1, cpr=len(cores), gpr=float(gm), slots=[slot])
    t2 = S.mk_task('t2', ranks=ranks2, cpr=cpr2, gpr=GAMT[ga2])
    sched._queue_sched.put(([t1], sched._SCHEDULE))
    real(sched._schedule_incoming)
    sched._queue_sched.put(([t2], sched._SCHEDULE))
    real(sched._schedule_incoming)
    started = [u for u, st, _ in sched.advanced
               if st == 'AGENT_EXECUTING_PENDING']
    check('t1' in started, 'task with application-supplied slots not started')
    if 't2' not in started:
        return
    reach()
    trace('t1 slots', t1['slots'], 't2 slots', t2['slots'])
    # t1 still holds its placement: t2 must not touch it
    held = S.snapshot(S.mk_nodes([[FREE] * 3, [FREE] * 3], [[FREE], [FREE]],
                                 0, 0))
    for c in cores: held[n0]['cores'][c] = BUSY
    if gm: held[n0]['gpus'][0] = BUSY
    S.check_no_oversubscription(held, t2['slots'])


# ------------------------------------------------------------------------------
@obligation(params={'n0': (0, 1), 'cm': (1, 7), 'gm': (0, 1)},
            timeout={'quick': 300, 'thorough': 900},
            funcs=['radical/pilot/agent/scheduler/base.py:'
                   'AgentSchedulingComponent._schedule_incoming'],
            bounds='pilot of 2 nodes x 3 cores x 1 GPU, core 2 of node 1 '
                   'blocked (DOWN); task 2 (1 rank, 1 core, 1 GPU) is placed '
                   'by the scheduler first (node 0: core 0, GPU 0), then task 1 '
                   'arrives with application-supplied slots (node index, core '
                   'mask over 3 cores, GPU on/off)',
            stubs=['mp.Queue -> in-memory queue', 'advance -> recorder'])
def h_app_slots_conflict(n0, cm, gm):
    """an application-supplied placement must not take held or blocked cells"""
    nodes = S.mk_nodes([[FREE] * 3, [FREE, FREE, DOWN]], [[FREE], [FREE]], 0, 0)
    sched = S.mk_sched(nodes, 3, 1)
    n0, cm, gm = conc(n0, 0, 1), conc(cm, 1, 7), conc(gm, 0, 1)
    cores = [i for i in range(3) if (cm >> i) & 1]
    slot  = {'cores': [{'index': i, 'occupation': 1.0} for i in cores],
             'gpus' : [{'index': 0, 'occupation': 1.0}] if gm else [],
             'lfs': 0, 'mem': 0, 'node_index': n0, 'node_name': 'node%d' % n0,
             'version': 1}
    t2 = S.mk_task('t2', ranks=1, cpr=1, gpr=1.0)
    t1 = S.mk_task('t1', ranks=1, cpr=len(cores), gpr=float(gm), slots=[slot])
    sched._queue_sched.put(([t2], sched._SCHEDULE))
    real(sched._schedule_incoming)
    check(t2.get('slots') and t2['slots'][0]['node_index'] == 0,
          'setup: t2 not placed on node 0')
    held = S.snapshot(nodes)
    sched._queue_sched.put(([t1], sched._SCHEDULE))
    real(sched._schedule_incoming)
    started = [u for u, st, _ in sched.advanced
               if st == 'AGENT_EXECUTING_PENDING']
    if 't1' not in started:
        return               # waiting or refused: nothing handed out
    reach()
    trace('held', held, 't1 slots', t1['slots'])
    S.check_no_oversubscription(held, t1['slots'])


# ------------------------------------------------------------------------------
# client side: resource_config.Node / NodeList
#
OCC = [0.0, 0.5, 1.0, None]          # FREE, half, BUSY, DOWN


def _occ_cells(code, n):
    out = []
    for _ in range(n):
        out.append(OCC[code % 4])
        code //= 4
    return out


def _client_node(idx, cocc, gocc, lfs, mem):
    return m_rc.Node({'index': idx, 'name': 'node%d' % idx,
                      'cores': [m_rc.RO(index=i, occupation=o)
                                for i, o in enumerate(cocc)],
                      'gpus' : [m_rc.RO(index=i, occupation=o)
                                for i, o in enumerate(gocc)],
                      'lfs': lfs, 'mem': mem})


def _client_snapshot(nodes):
    return [{'cores': [c.occupation for c in n.cores],
             'gpus' : [g.occupation for g in n.gpus],
             'lfs': n.lfs, 'mem': n.mem} for n in nodes]


def _check_client_grant(pre, post, slots):
    # every cell: post == pre + granted shares, <= BUSY; DOWN untouched
    add = [{'cores': [0.0] * len(p['cores']), 'gpus': [0.0] * len(p['gpus']),
            'lfs': 0, 'mem': 0} for p in pre]
    for s in slots:
        a = add[s.node_index]
        seen_c, seen_g = set(), set()
        for ro in s.cores:
            check(ro.index not in seen_c, 'slot holds core %s twice', ro.index)
            seen_c.add(ro.index)
            a['cores'][ro.index] += ro.occupation
        for ro in s.gpus:
            check(ro.index not in seen_g, 'slot holds gpu %s twice', ro.index)
            seen_g.add(ro.index)
            a['gpus'][ro.index] += ro.occupation
        a['lfs'] += s.lfs
        a['mem'] += s.mem
    for ni, (p, q, a) in enumerate(zip(pre, post, add)):
        for kind in ('cores', 'gpus'):
            for i, (o0, o1, d) in enumerate(zip(p[kind], q[kind], a[kind])):
                if o0 is None:
                    check(o1 is None and d == 0.0, 'blocked %s %s:%s handed '
                          'out', kind, ni, i)
                    continue
                check(o1 == o0 + d, 'node %s %s[%s]: occupation %s != %s + %s',
                      ni, kind, i, o1, o0, d)
                check(o1 <= 1.0, 'node %s %s[%s] oversubscribed: %s',
                      ni, kind, i, o1)
        check(q['lfs'] == p['lfs'] - a['lfs'] and q['lfs'] >= 0,
              'node %s lfs %s (was %s, granted %s)', ni, q['lfs'], p['lfs'],
              a['lfs'])
        check(q['mem'] == p['mem'] - a['mem'] and q['mem'] >= 0,
              'node %s mem %s (was %s, granted %s)', ni, q['mem'], p['mem'],
              a['mem'])


RRO = [0.5, 1.0]


@obligation(params={'cc': (0, 63), 'gc': (0, 3), 'ncr': (1, 2), 'co': (0, 1),
                    'ngr': (0, 1), 'go': (0, 1), 'lfs': (0, 200),
                    'lreq': (0, 200)},
            shapes={'quick': [{'nc': 2, '_ranges': {'cc': (0, 15)}}],
                    'thorough': [{'nc': 3}]},
            partition={'quick': ('cc', 8), 'thorough': ('cc', 16)},
            timeout={'quick': 300, 'thorough': 900},
            funcs=['radical/pilot/resource_config.py:Node.find_slot',
                   'radical/pilot/resource_config.py:Node.allocate_slot'],
            bounds='client-side node with nc cores x 1 GPU, every cell '
                   'occupation in {0, .5, 1, DOWN}; request: 1..2 cores at '
                   'occupation {.5,1}, 0..1 GPUs at {.5,1}; node lfs and '
                   'requested lfs symbolic in [0,200]')
def h_client_find_slot(cc, gc, ncr, co, ngr, go, lfs, lreq, nc=2):
    """Node.find_slot never pushes a core/GPU beyond full occupation"""
    cc, gc = conc(cc, 0, 4 ** nc - 1), conc(gc, 0, 3)
    ncr, co, ngr, go = conc(ncr, 1, 2), conc(co, 0, 1), conc(ngr, 0, 1), \
                       conc(go, 0, 1)
    node = _client_node(0, _occ_cells(cc, nc), _occ_cells(gc, 1), lfs, 100)
    pre  = _client_snapshot([node])
    rr   = m_rc.RankRequirements(n_cores=ncr, core_occupation=RRO[co],
                                 n_gpus=ngr, gpu_occupation=RRO[go],
                                 lfs=lreq, mem=0)
    slot = real(node.find_slot, rr)
    post = _client_snapshot([node])
    if slot is None:
        check(post == pre, 'find_slot failed but changed the node')
        return
    reach()
    check(len(slot.cores) == ncr and len(slot.gpus) == ngr,
          'slot shape %s/%s, requested %s/%s', len(slot.cores),
          len(slot.gpus), ncr, ngr)
    check(all(ro.occupation == RRO[co] for ro in slot.cores) and
          all(ro.occupation == RRO[go] for ro in slot.gpus),
          'slot occupation differs from request')
    check(slot.lfs == lreq, 'slot lfs %s != %s', slot.lfs, lreq)
    _check_client_grant(pre, post, [slot])
    # giving it back restores the node exactly
    real(node.deallocate_slot, slot)
    check(_client_snapshot([node]) == pre, 'deallocate_slot does not restore')


# ------------------------------------------------------------------------------
@obligation(params={'ca': (0, 15), 'cb': (0, 3), 'ncr': (1, 2), 'n': (1, 3),
                    'co': (0, 1)},
            partition={'quick': ('ca', 16), 'thorough': ('ca', 16)},
            timeout={'quick': 300, 'thorough': 900},
            funcs=['radical/pilot/resource_config.py:NodeList.find_slots',
                   'radical/pilot/resource_config.py:Node.find_slot',
                   'radical/pilot/resource_config.py:Node.deallocate_slot'],
            bounds='client-side NodeList of 2 nodes x 2 cores; node A all 16 '
                   'occupancy states, node B from 4; request 1..2 cores per '
                   'rank at occupation {.5,1}, 1..3 slots (incl. requests '
                   'which fail after slots were collected on the first node)')
def h_client_find_slots(ca, cb, ncr, n, co):
    """NodeList.find_slots: grants stay within occupation 1; a failed request
    gives back exactly what it had collected, on the node it came from"""
    import harness.c02 as c02
    c02.h_client_find_slots(ca, cb, ncr, n, co, 0, bfull=False)


# ------------------------------------------------------------------------------
# the JSRUN flavour of the continuous scheduler: ranks are grouped into resource
# sets which share whole GPUs; no GPU carries more than one full share
#
import radical.pilot.agent.scheduler.continuous_jsrun as m_jsrun     # noqa: E402

JS_GPR = [0.25, 0.3, 0.4, 0.5, 0.75, 1.0, 2.0]
m_jsrun.pprint = S._NoPprint


@obligation(params={'ranks': (1, 6), 'gi': (0, 6), 'gbusy': (0, 7),
                    'cbusy': (0, 3)},
            partition={'quick': ('gi', 7), 'thorough': ('gi', 7)},
            timeout={'quick': 300, 'thorough': 600},
            funcs=['radical/pilot/agent/scheduler/continuous_jsrun.py:'
                   'ContinuousJsrun.schedule_task',
                   'radical/pilot/agent/scheduler/continuous_jsrun.py:'
                   'ContinuousJsrun._find_resources'],
            bounds='ContinuousJsrun: 2 nodes x 6 cores x 3 GPUs; on node 0 any '
                   'subset of the GPUs and the first 0..3 cores are BUSY; '
                   'request 1..6 ranks x 1 core with GPU amount per rank from '
                   '{.25,.3,.4,.5,.75,1,2}')
def h_jsrun_gpu_shares(ranks, gi, gbusy, cbusy):
    """JSRUN resource sets: only free cells, no GPU beyond one full share"""
    ranks, gi = conc(ranks, 1, 6), conc(gi, 0, 6)
    gbusy, cbusy = conc(gbusy, 0, 7), conc(cbusy, 0, 3)
    gpr = JS_GPR[gi]
    c0 = [BUSY if i < cbusy else FREE for i in range(6)]
    g0 = [BUSY if (gbusy >> i) & 1 else FREE for i in range(3)]
    nodes = S.mk_nodes([c0, [FREE] * 6], [g0, [FREE] * 3], 0, 0)
    pre   = S.snapshot(nodes)
    sched = S.mk_sched(nodes, 6, 3, cls=m_jsrun.ContinuousJsrun)
    task  = S.mk_task('t0', ranks=ranks, cpr=1, gpr=gpr)
    try:
        res = sched.schedule_task(task)
    except (AssertionError, ValueError, RuntimeError) as e:
        trace('refused', repr(e))
        return
    slots = res[0] if isinstance(res, tuple) else res
    if not slots:
        return
    reach()
    trace('ranks', ranks, 'gpus/rank', gpr, 'slots', slots)
    load, cores_seen, owner = {}, set(), {}
    nrank = 0
    for si, sl in enumerate(slots):
        ni = sl['node_index']
        for rc in sl['cores']:
            nrank += 1
            for c in rc:
                check((ni, c) not in cores_seen, 'core %s:%s granted twice',
                      ni, c)
                cores_seen.add((ni, c))
                check(pre[ni]['cores'][c] == FREE, 'core %s:%s was not free',
                      ni, c)
        for rg in sl['gpus']:
            for g in rg:
                check(pre[ni]['gpus'][g] == FREE, 'gpu %s:%s was not free',
                      ni, g)
                check(owner.setdefault((ni, g), si) == si, 'gpu %s:%s is in '
                      'two resource sets', ni, g)
                load[(ni, g)] = load.get((ni, g), 0.0) + gpr / len(rg)
    check(nrank == ranks, '%s ranks placed, %s requested', nrank, ranks)
    for (ni, g), l in load.items():
        check(l <= 1.0 + 1e-9, 'gpu %s:%s carries %.2f shares (%s ranks x %s '
              'gpus): %s', ni, g, l, ranks, gpr, slots)
    total = len(load)
    check(total + 1e-9 >= ranks * gpr, '%s whole GPUs granted for %s ranks x '
          '%s gpus', total, ranks, gpr)
