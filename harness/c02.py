"""
C02 - a granted placement has exactly the requested shape.

Real code: Continuous.schedule_task / _find_resources / _iterate_nodes,
AgentSchedulingComponent._try_allocation; client side NodeList._assert_rr /
find_slots, Node.find_slot.
"""

from vfw.api import obligation, check, reach, trace, real, conc
from harness import sched as S
from harness.sched import FREE, BUSY, DOWN
from harness.c01 import _cells, GAMT, _client_node, _client_snapshot

import radical.pilot.resource_config as m_rc

META = {
    'explanation':
        'Bounded symbolic execution (CrossHair+z3) of the real '
        'Continuous.schedule_task/_find_resources via _try_allocation from an '
        'arbitrary occupancy map (cells FREE/BUSY/DOWN) for a symbolic request '
        '(ranks, cores/rank incl. more than a node has, GPU amount incl. '
        'fractional and more than a node has, lfs/mem per rank, '
        'ranks_per_node, colocate tag with a symbolic tag history, exclusive '
        'flag, scattered mode): every granted placement is compared with the '
        'request (rank count, one existing node per rank, distinct cores, GPU '
        'amount, lfs/mem, ranks-per-node limit, colocate history), requests '
        'whose per-rank needs exceed a node must be refused.  Client side: '
        'NodeList.find_slots returns exactly n slots of the requested shape or '
        'nothing.'}

FUNCS = ['radical/pilot/agent/scheduler/continuous.py:Continuous.schedule_task',
         'radical/pilot/agent/scheduler/continuous.py:Continuous._find_resources',
         'radical/pilot/agent/scheduler/base.py:'
         'AgentSchedulingComponent._try_allocation']

CPR  = [1, 2, 3]             # cores per rank (3 > cores_per_node = 2)
GA2  = [0.0, 0.5, 1.0, 2.0]  # 2.0 > gpus_per_node = 1
BST  = [[FREE, FREE, FREE], [BUSY, FREE, FREE], [FREE, DOWN, BUSY]]


@obligation(params={'ca': (0, 26), 'cb': (0, 2), 'ranks': (1, 3), 'icpr': (0, 2),
                    'ga': (0, 3), 'rpn': (0, 2), 'scattered': 'bool',
                    'offset': (0, 1)},
            shapes={'quick': [{'rmax': 2, 'nb': 2, 'rpnmax': 1}],
                    'thorough': [{}]},
            partition={'quick': ('ca', 14), 'thorough': ('ca', 27)},
            timeout={'quick': 300, 'thorough': 1800},
            funcs=FUNCS,
            bounds='2 nodes x 2 cores x 1 GPU; node A all 27 cell states, node '
                   'B from 3 (quick 2) states; ranks 1..3 (quick 1..2), cores/'
                   'rank {1,2,3}, GPUs/rank {0,.5,1,2}, ranks_per_node '
                   '{none,1,2}, scattered on/off, iteration offset 0/1',
            stubs=['_log/_prof no-op', 'pprint.pformat -> empty'])
def h_shape(ca, cb, ranks, icpr, ga, rpn, scattered, offset, rmax=3, nb=3,
            rpnmax=2):
    """granted slots match ranks / cores / GPUs / ranks_per_node exactly"""
    if ranks > rmax or cb >= nb or rpn > rpnmax: return
    ca, cb, ga, offset = conc(ca, 0, 26), conc(cb, 0, 2), conc(ga, 0, 3), \
                         conc(offset, 0, 1)
    ranks, icpr, rpn = conc(ranks, 1, 3), conc(icpr, 0, 2), conc(rpn, 0, 2)
    acells, bcells = _cells(ca, 3), BST[cb]
    nodes = S.mk_nodes([acells[:2], bcells[:2]], [acells[2:], bcells[2:]], 0, 0)
    sched = S.mk_sched(nodes, 2, 1, scattered=scattered, offset=offset,
                       active=1)
    pre   = S.snapshot(nodes)
    task  = S.mk_task('t0', ranks=ranks, cpr=CPR[icpr], gpr=GA2[ga],
                      rpn=rpn or None)
    try:
        ok = sched._try_allocation(task)
    except (ValueError, AssertionError, RuntimeError, TypeError) as e:
        check('slots' not in task, 'refused (%r) but slots attached', e)
        return
    if not ok:
        return
    reach()
    trace('pre', pre, 'td', task['description'], 'slots', task['slots'])
    S.check_shape(task, task['slots'], pre, 2, 1, 0, 0)


# ------------------------------------------------------------------------------
HIST = [None, [0], [1], [0, 1]]


@obligation(params={'tag': (0, 2), 'hist': (0, 3), 'excl': 'bool',
                    'tagged0': 'bool', 'ca': (0, 8), 'cb': (0, 8),
                    'ranks': (1, 3), 'scattered': 'bool', 'offset': (0, 1)},
            partition={'quick': ('ca', 9), 'thorough': ('ca', 9)},
            shapes={'quick': [{'rmax': 2, 'small': True}], 'thorough': [{}]},
            timeout={'quick': 300, 'thorough': 1200},
            funcs=FUNCS,
            bounds='2 nodes x 2 cores (cells FREE/BUSY/DOWN each), no GPUs; '
                   'colocate tag in {none, a, b}; tag history of "a" in {unused, '
                   '[0], [1], [0,1]}; exclusive flag; node 0 already tagged or '
                   'not; ranks 1..3 (quick 1..2; quick: node B from 3 states)')
def h_colocate(tag, hist, excl, tagged0, ca, cb, ranks, scattered, offset,
               rmax=3, small=False):
    """a task with a used colocate tag only lands on that tag's nodes"""
    if ranks > rmax: return
    if tag == 0 and (hist or excl or tagged0): return      # irrelevant
    if tagged0 and not excl: return                         # irrelevant
    if small and cb not in (0, 1, 4): return    # node B: free/core0 busy/busy
    tag, hist, ca, cb = conc(tag, 0, 2), conc(hist, 0, 3), conc(ca, 0, 8), \
                        conc(cb, 0, 8)
    ranks, offset = conc(ranks, 1, 3), conc(offset, 0, 1)
    nodes = S.mk_nodes([_cells(ca, 2), _cells(cb, 2)], [[], []], 0, 0)
    sched = S.mk_sched(nodes, 2, 0, scattered=scattered, offset=offset,
                       active=1)
    if HIST[hist] is not None:
        sched._colo_history['a'] = list(HIST[hist])
        sched._tagged_nodes.update(HIST[hist])
    if tagged0:
        sched._tagged_nodes.add(0)
    tags = {}
    if tag: tags['colocate'] = ['a', 'b'][tag - 1]
    if excl: tags['exclusive'] = True
    colo_before = {k: list(v) for k, v in sched._colo_history.items()}
    pre  = S.snapshot(nodes)
    task = S.mk_task('t0', ranks=ranks, cpr=1, tags=tags)
    try:
        ok = sched._try_allocation(task)
    except (ValueError, AssertionError, RuntimeError) as e:
        return
    if not ok:
        return
    reach()
    trace('pre', pre, 'tags', tags, 'history', colo_before,
          'slots', [(s['node_index'], [c['index'] for c in s['cores']])
                    for s in task['slots']])
    S.check_shape(task, task['slots'], pre, 2, 0, 0, 0, colo_before)
    if tag:
        t = tags['colocate']
        check(set(sched._colo_history.get(t, [])) >=
              {s['node_index'] for s in task['slots']},
              'tag history %s does not cover the nodes used',
              sched._colo_history.get(t))


# ------------------------------------------------------------------------------
LREQ = [0, 30, 60, 100, 101]


@obligation(params={'lreq': (0, 4), 'mreq': (0, 4), 'ranks': (1, 3),
                    'la': (0, 2), 'rpn': (0, 2)},
            timeout={'quick': 300, 'thorough': 900},
            funcs=FUNCS,
            bounds='2 nodes x 3 cores, lfs/mem per node 100; per-rank lfs and '
                   'mem from {0,30,60,100,101}; lfs left on node A from '
                   '{0,40,100}; ranks 1..3; ranks_per_node {none,1,2}')
def h_lfs_shape(lreq, mreq, ranks, la, rpn):
    """per-rank lfs/mem are recorded as requested; beyond a node is refused"""
    lreq, mreq, ranks = conc(lreq, 0, 4), conc(mreq, 0, 4), conc(ranks, 1, 3)
    la, rpn = conc(la, 0, 2), conc(rpn, 0, 2)
    nodes = S.mk_nodes([[FREE] * 3, [FREE] * 3], [[], []],
                       [[0, 40, 100][la], 100], [100, 100])
    sched = S.mk_sched(nodes, 3, 0, lfs_per_node=100, mem_per_node=100,
                       active=1)
    pre   = S.snapshot(nodes)
    task  = S.mk_task('t0', ranks=ranks, cpr=1, lfs=LREQ[lreq], mem=LREQ[mreq],
                      rpn=rpn or None)
    try:
        ok = sched._try_allocation(task)
    except (ValueError, AssertionError, RuntimeError):
        return
    if not ok:
        return
    reach()
    S.check_shape(task, task['slots'], pre, 3, 0, 100, 100)


# ------------------------------------------------------------------------------
# client side
#
CB4 = [0, 2, 6, 15]     # node B: free / core0 busy / half+.. / all DOWN


@obligation(params={'ca': (0, 15), 'cb': (0, 15), 'ncr': (0, 3), 'n': (1, 3),
                    'co': (0, 1), 'lreq': (0, 2)},
            shapes={'quick': [{'bfull': False, '_ranges': {'cb': (0, 3),
                                                           'lreq': (0, 1)}}],
                    'thorough': [{'bfull': True}]},
            partition={'quick': ('ca', 16), 'thorough': ('ca', 16)},
            timeout={'quick': 300, 'thorough': 900},
            funcs=['radical/pilot/resource_config.py:NodeList.find_slots',
                   'radical/pilot/resource_config.py:NodeList._assert_rr',
                   'radical/pilot/resource_config.py:Node.find_slot'],
            bounds='client-side NodeList of 2 nodes x 2 cores, no GPUs, lfs 100 '
                   'each; every core occupation in {0,.5,1,DOWN} (quick: node B '
                   'from 4 representative states); request: 0..3 '
                   'cores per rank at occupation {.5,1}, lfs/rank {0,60,101}, '
                   'n_slots 1..3')
def h_client_find_slots(ca, cb, ncr, n, co, lreq, bfull=False):
    """find_slots returns exactly n slots of the requested shape, or None"""
    from harness.c01 import _occ_cells, RRO
    ca, cb, ncr, n = conc(ca, 0, 15), conc(cb, 0, 15), conc(ncr, 0, 3), \
                     conc(n, 1, 3)
    if not bfull:
        cb = CB4[cb]
    co, lreq = conc(co, 0, 1), conc(lreq, 0, 2)
    # uniform node list as seen by _assert_rr: capacities equal, occupation not
    n0 = _client_node(0, _occ_cells(ca, 2), [], 100, 100)
    n1 = _client_node(1, _occ_cells(cb, 2), [], 100, 100)
    nl = m_rc.NodeList(nodes=[n0, n1])
    nl.uniform, nl.cores_per_node, nl.gpus_per_node = True, 2, 0
    nl.lfs_per_node, nl.mem_per_node = 100, 100
    nl.__verified__ = True
    pre = _client_snapshot([n0, n1])
    lfs = [0, 60, 101][lreq]
    rr  = m_rc.RankRequirements(n_cores=ncr, core_occupation=RRO[co],
                                lfs=lfs)
    try:
        slots = nl.find_slots(rr, n_slots=n)
    except ValueError:
        # refused: per-rank needs beyond a node / more slots than the list
        check(_client_snapshot([n0, n1]) == pre, 'refused but nodes changed')
        check(ncr == 0 or ncr > 2 or lfs > 100 or
              n > 2 * min(2 / ncr, (100 / lfs) if lfs else 99),
              'valid request refused: %s cores/rank, lfs %s, n=%s',
              ncr, lfs, n)
        return
    except Exception as e:
        check(False, 'NodeList.find_slots raised %s: %s', type(e).__name__, e)
    if slots is None:
        check(_client_snapshot([n0, n1]) == pre,
              'find_slots failed but left resources allocated')
        return
    reach()
    check(len(slots) == n, 'got %s slots, asked for %s', len(slots), n)
    check(1 <= ncr <= 2 and lfs <= 100, 'request beyond a node was granted')
    for s in slots:
        check(s.node_index in (0, 1) and s.node_name == 'node%d' % s.node_index,
              'slot on unknown node')
        idx = [ro.index for ro in s.cores]
        check(len(idx) == ncr and len(set(idx)) == ncr, 'slot cores %s', idx)
        check(all(ro.occupation == RRO[co] for ro in s.cores), 'occupation')
        check(s.lfs == lfs, 'slot lfs %s', s.lfs)
    from harness.c01 import _check_client_grant
    _check_client_grant(pre, _client_snapshot([n0, n1]), slots)


# ------------------------------------------------------------------------------
GA3 = [0.5, 1.0, 2.0, 3.0]


@obligation(params={'cc': (0, 3), 'gc': (0, 26), 'n_slots': (1, 2),
                    'cps': (1, 2), 'ga': (0, 3), 'partial': 'bool'},
            partition={'quick': ('gc', 9), 'thorough': ('gc', 27)},
            timeout={'quick': 300, 'thorough': 900},
            funcs=['radical/pilot/agent/scheduler/continuous.py:'
                   'Continuous._find_resources'],
            bounds='one node: 2 cores (FREE/BUSY each) x 3 GPUs (FREE/BUSY/DOWN '
                   'each); n_slots 1..2, cores/slot 1..2, GPUs/slot '
                   '{.5,1,2,3}, partial on/off')
def h_find_shape(cc, gc, n_slots, cps, ga, partial):
    """every slot found on a node has exactly the requested cores and GPUs"""
    cc, gc, ga = conc(cc, 0, 3), conc(gc, 0, 26), conc(ga, 0, 3)
    n_slots, cps = conc(n_slots, 1, 2), conc(cps, 1, 2)
    cores = [BUSY if (cc >> i) & 1 else FREE for i in range(2)]
    node  = S.mk_nodes([cores], [_cells(gc, 3)], 0, 0)[0]
    sched = S.mk_sched([node], 2, 3)
    gpr   = GA3[ga]
    try:
        slots = sched._find_resources(node, n_slots, cps, gpr, 0, 0, partial)
    except TypeError:
        return                      # blocked GPU in the share arithmetic
    if not slots:
        return
    reach()
    check(len(slots) <= n_slots and (partial or len(slots) == n_slots),
          'found %s slots, asked %s (partial=%s)', len(slots), n_slots, partial)
    for s in slots:
        ci = [c['index'] for c in s['cores']]
        gi = [g['index'] for g in s['gpus']]
        check(len(ci) == cps and len(set(ci)) == cps, 'slot cores %s, '
              'requested %s', ci, cps)
        if gpr >= 1:
            check(len(gi) == int(gpr) and len(set(gi)) == len(gi),
                  'slot gpus %s, requested %s', gi, gpr)
        else:
            check(len(gi) == 1 and s['gpus'][0]['occupation'] == gpr,
                  'slot gpu share %s, requested %s', s['gpus'], gpr)


# ------------------------------------------------------------------------------
@obligation(params={'cc': (0, 15), 'gc': (0, 3), 'ncr': (1, 2), 'co': (0, 1),
                    'ngr': (0, 1), 'go': (0, 1), 'lreq': (0, 200)},
            partition={'quick': ('cc', 8), 'thorough': ('cc', 16)},
            timeout={'quick': 300, 'thorough': 600},
            funcs=['radical/pilot/resource_config.py:Node.find_slot',
                   'radical/pilot/resource_config.py:Node.allocate_slot'],
            bounds='as C01 h_client_find_slot: one client-side node of 2 cores x '
                   '1 GPU in every occupancy state; request 1..2 cores at '
                   'occupation {.5,1}, 0..1 GPUs at an independent occupation '
                   '{.5,1}, lfs symbolic (node lfs 100)')
def h_client_slot_shape(cc, gc, ncr, co, ngr, go, lreq):
    """the slot a client-side node hands out has the requested cores / GPUs at
    the requested shares"""
    import harness.c01 as c01
    c01.h_client_find_slot(cc, gc, ncr, co, ngr, go, 100, lreq, nc=2)
