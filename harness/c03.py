"""
C03 - released resources come back exactly once and completely.

Real code: AgentSchedulingComponent._try_allocation / _schedule_incoming /
_unschedule_completed / _change_slot_states, Continuous.schedule_task /
unschedule_task; client side NodeList.find_slots / release_slots.  The
"exactly one unschedule publication per task" half lives in the executor
harness (harness/c07.py) and is re-run here through h_exec_release*.
"""

from vfw.api import obligation, check, reach, trace, real, conc
from harness import sched as S
from harness.sched import FREE, BUSY, DOWN
from harness.c01 import _cells, GAMT, LFS_REQ

import radical.pilot.resource_config as m_rc

META = {
    'explanation':
        'Bounded symbolic execution (CrossHair+z3) of the real scheduler '
        'grant/release code.  (1) Round trip from an arbitrary occupancy map: '
        'one grant through _try_allocation followed by its release through '
        '_unschedule_completed restores the map (cores, GPUs, lfs, mem) and '
        '_active_cnt exactly.  (2) Bounded histories on an idle pilot: up to 3 '
        'tasks of symbolic shapes (incl. one with application-supplied slots) '
        'are granted and released in a symbolic order; while a task is '
        'unreleased nothing it holds is granted again; at quiescence the map '
        'equals the initial map and _active_cnt == 0.  (3) Executor side: on '
        'every explored interleaving of the executor harness (C07) exactly one '
        'unschedule message is published per task.  (4) Client side: '
        'find_slots followed by release_slots restores every occupation.'}

FUNCS = ['radical/pilot/agent/scheduler/base.py:'
         'AgentSchedulingComponent._try_allocation',
         'radical/pilot/agent/scheduler/base.py:'
         'AgentSchedulingComponent._unschedule_completed',
         'radical/pilot/agent/scheduler/base.py:'
         'AgentSchedulingComponent._change_slot_states',
         'radical/pilot/agent/scheduler/continuous.py:Continuous.unschedule_task',
         'radical/pilot/agent/scheduler/continuous.py:Continuous.schedule_task']


@obligation(params={'ca': (0, 26), 'cb': (0, 2), 'ranks': (1, 3), 'cpr': (1, 2),
                    'ga': (0, 2), 'la': (0, 2), 'lreq': (0, 3), 'mreq': (0, 3),
                    'active': (0, 2)},
            shapes={'quick': [{'rmax': 2, 'small': True}], 'thorough': [{}]},
            partition={'quick': ('ca', 14), 'thorough': ('ca', 27)},
            timeout={'quick': 300, 'thorough': 3000},
            funcs=FUNCS,
            bounds='2 nodes x 2 cores x 1 GPU, node A all 27 cell states, node '
                   'B from 3; lfs/mem per node 100, lfs left on A from '
                   '{0,40,100}; request: ranks 1..3, cores/rank 1..2, GPU '
                   '{0,.5,1}, lfs and mem per rank from {0,30,60,100} (both set: '
                   'equal amounts); _active_cnt before 0..2',
            stubs=['mp.Queue -> in-memory queue', '_log/_prof no-op'])
def h_roundtrip(ca, cb, ranks, cpr, ga, la, lreq, mreq, active, rmax=3,
                small=False):
    """grant + release restores the map and the active count exactly"""
    if ranks > rmax: return
    if small:
        # lfs/mem bookkeeping is independent of the cell states: vary it only
        # on the all-free node A
        if lreq or mreq or la != 2: return          # see h_roundtrip_lfs
        if active > 1 or cb > 1: return
    else:
        # thorough: lfs and mem are accounted by the same code, independently
        # of each other and of the active count: no full cross product
        if lreq and mreq and lreq != mreq: return
        if active == 1 and (lreq or mreq): return
    ca, cb, ga = conc(ca, 0, 26), conc(cb, 0, 2), conc(ga, 0, 2)
    ranks, cpr, la = conc(ranks, 1, 3), conc(cpr, 1, 2), conc(la, 0, 2)
    lreq, mreq, active = conc(lreq, 0, 3), conc(mreq, 0, 3), conc(active, 0, 2)
    acells = _cells(ca, 3)
    bcells = [[FREE, FREE, FREE], [BUSY, FREE, FREE], [FREE, DOWN, BUSY]][cb]
    nodes  = S.mk_nodes([acells[:2], bcells[:2]], [acells[2:], bcells[2:]],
                        [[0, 40, 100][la], 100], [100, 100])
    sched  = S.mk_sched(nodes, 2, 1, lfs_per_node=100, mem_per_node=100,
                        active=active)
    pre    = S.snapshot(nodes)
    task   = S.mk_task('t0', ranks=ranks, cpr=cpr, gpr=GAMT[ga],
                       lfs=LFS_REQ[lreq], mem=LFS_REQ[mreq])
    try:
        ok = sched._try_allocation(task)
    except (ValueError, AssertionError, RuntimeError, TypeError):
        check(S.snapshot(nodes) == pre and sched._active_cnt == active,
              'refused but state changed')
        return
    if not ok:
        check(S.snapshot(nodes) == pre and sched._active_cnt == active,
              'not placed but state changed')
        return
    check(sched._active_cnt == active + 1, 'active count %s after grant',
          sched._active_cnt)
    sched._queue_unsched.put([task])
    r, a = real(sched._unschedule_completed)
    reach()
    trace('pre', pre, 'slots', task['slots'], 'post', S.snapshot(nodes))
    check(r is True and a is True, 'release not reported as new resources')
    check(S.snapshot(nodes) == pre, 'map after release %s != map before grant '
          '%s', S.snapshot(nodes), pre)
    check(sched._active_cnt == active, 'active count %s != %s',
          sched._active_cnt, active)


@obligation(params={'lreq': (0, 3), 'mreq': (0, 3), 'la': (0, 2),
                    'ranks': (1, 3), 'cpr': (1, 2), 'cb': (0, 2),
                    'active': (0, 1)},
            partition={'quick': ('lreq', 4), 'thorough': ('lreq', 4)},
            shapes={'quick': [{'rmax': 2}], 'thorough': [{}]},
            timeout={'quick': 300, 'thorough': 900},
            funcs=FUNCS,
            bounds='as h_roundtrip with node A all free: lfs left on A from '
                   '{0,40,100}, lfs and mem per rank from {0,30,60,100}, ranks '
                   '1..3 (quick 1..2), cores/rank 1..2, node B from 3 states')
def h_roundtrip_lfs(lreq, mreq, la, ranks, cpr, cb, active, rmax=3):
    """grant + release restores lfs and mem exactly"""
    h_roundtrip(0, cb, ranks, cpr, 0, la, lreq, mreq, active, rmax=rmax,
                small=False)


# ------------------------------------------------------------------------------
ORDERS = [[0, 1, 2], [0, 2, 1], [1, 0, 2], [1, 2, 0], [2, 0, 1], [2, 1, 0]]


@obligation(params={'r0': (1, 2), 'c0': (1, 2), 'g0': (0, 2), 'r1': (1, 2),
                    'c1': (1, 2), 'g1': (0, 2), 'oa': (0, 23), 'l0': (0, 2)},
            shapes={'quick': [{'small': True}], 'thorough': [{}]},
            partition={'quick': ('oa', 24), 'thorough': ('oa', 24)},
            timeout={'quick': 300, 'thorough': 1800},
            funcs=FUNCS + ['radical/pilot/agent/scheduler/base.py:'
                           'AgentSchedulingComponent._schedule_incoming'],
            bounds='idle pilot 2 nodes x 2 cores x 1 GPU, lfs 100/node; tasks '
                   't0, t1 with symbolic ranks 1..2, cores/rank 1..2, GPU '
                   '{0,.5,1}, t0 lfs/rank {0,60,100}; third task arrives with '
                   'application-supplied slots (none / node0 core0 / node1 '
                   'cores 0,1 + GPU / node 1 core 1); tasks that were started '
                   'are released in one of the 6 orders, a later task may '
                   'start only after releases',
            stubs=['mp.Queue -> in-memory queue', 'advance -> recorder'])
def h_history(r0, c0, g0, r1, c1, g1, oa, l0, small=False):
    """grants and releases in any order end with the initial capacity"""
    oa = conc(oa, 0, 23)
    app, order = oa // 6, oa % 6          # app-slot variant x release order
    if small and (l0 == 1 or g1 == 2 or g0 == 1 or c1 == 2): return
    r0, c0, g0 = conc(r0, 1, 2), conc(c0, 1, 2), conc(g0, 0, 2)
    r1, c1, g1 = conc(r1, 1, 2), conc(c1, 1, 2), conc(g1, 0, 2)
    app, order, l0 = conc(app, 0, 3), conc(order, 0, 5), conc(l0, 0, 2)
    nodes = S.mk_nodes([[FREE] * 2, [FREE] * 2], [[FREE], [FREE]], 100, 100)
    sched = S.mk_sched(nodes, 2, 1, lfs_per_node=100, mem_per_node=100)
    init  = S.snapshot(nodes)
    tasks = [S.mk_task('t0', ranks=r0, cpr=c0, gpr=GAMT[g0],
                       lfs=[0, 60, 100][l0]),
             S.mk_task('t1', ranks=r1, cpr=c1, gpr=GAMT[g1])]
    if app:
        n, cs, g = [(0, [0], 0), (1, [0, 1], 1), (1, [1], 0)][app - 1]
        slot = {'cores': [{'index': i, 'occupation': 1.0} for i in cs],
                'gpus' : [{'index': 0, 'occupation': 1.0}] if g else [],
                'lfs': 0, 'mem': 0, 'node_index': n, 'node_name': 'node%d' % n,
                'version': 1}
        # application placement arrives first (pilot idle: no conflict)
        tasks.insert(0, S.mk_task('ta', ranks=1, cpr=len(cs), gpr=float(g),
                                  slots=[slot]))
    held = {}                    # uid -> slots currently held

    def started():
        return [u for u, st, _ in sched.advanced
                if st == 'AGENT_EXECUTING_PENDING']

    def intake(t):
        before = S.snapshot(nodes)
        sched._queue_sched.put(([t], sched._SCHEDULE))
        real(sched._schedule_incoming)
        if t['uid'] in started() and t['uid'] not in held:
            # what it got must not be held by anybody else
            if not t['description'].get('slots'):
                S.check_no_oversubscription(before, t['slots'])
            held[t['uid']] = t['slots']

    released = set()

    def release(t):
        sched._queue_unsched.put([t])
        real(sched._unschedule_completed)
        del held[t['uid']]
        released.add(t['uid'])
        # waiting tasks get their chance, as in the scheduler loop
        before = S.snapshot(nodes)
        real(sched._schedule_waitpool)
        for w in tasks:
            if w['uid'] in started() and w['uid'] not in held \
                                    and w['uid'] not in released:
                S.check_no_oversubscription(before, w['slots'])
                held[w['uid']] = w['slots']

    for t in tasks:
        intake(t)
    for t in [tasks[i] for i in ORDERS[order] if i < len(tasks)]:
        if t['uid'] in held:
            release(t)
    # release whatever started late
    for _ in range(len(tasks)):
        for t in tasks:
            if t['uid'] in held:
                release(t)
    reach()
    trace('tasks', [t['description'] for t in tasks], 'order', ORDERS[order],
          'final', S.snapshot(nodes), 'active', sched._active_cnt)
    waiting = sum(len(p) for p in sched._waitpool.values())
    fin     = [u for u, st, _ in sched.advanced if st in ('FAILED', 'CANCELED')]
    check(S.snapshot(nodes) == init, 'capacity at quiescence %s != initial %s',
          S.snapshot(nodes), init)
    check(sched._active_cnt == 0, '_active_cnt == %s at quiescence',
          sched._active_cnt)


# ------------------------------------------------------------------------------
@obligation(params={'ca': (0, 15), 'cb': (0, 3), 'ncr': (1, 2), 'n': (1, 3),
                    'co': (0, 1), 'lreq': (0, 1), 'fail_first': 'bool'},
            partition={'quick': ('ca', 16), 'thorough': ('ca', 16)},
            shapes={'quick': [{'_ranges': {'cb': (0, 1)}}], 'thorough': [{}]},
            timeout={'quick': 300, 'thorough': 900},
            funcs=['radical/pilot/resource_config.py:NodeList.find_slots',
                   'radical/pilot/resource_config.py:NodeList.release_slots',
                   'radical/pilot/resource_config.py:Node.deallocate_slot'],
            bounds='client-side NodeList 2 nodes x 2 cores, lfs 100; node A '
                   'all 16 occupancy states, node B from 4; request 1..2 cores/'
                   'rank at {.5,1}, lfs {0,60}, 1..3 slots; optionally a '
                   'failed find_slots call first')
def h_client_release(ca, cb, ncr, n, co, lreq, fail_first):
    """find_slots then release_slots restores every occupation, lfs, mem"""
    from harness.c01 import _occ_cells, RRO, _client_node, _client_snapshot
    from harness.c02 import CB4
    ca, cb, ncr, n = conc(ca, 0, 15), conc(cb, 0, 3), conc(ncr, 1, 2), \
                     conc(n, 1, 3)
    co, lreq = conc(co, 0, 1), conc(lreq, 0, 1)
    n0 = _client_node(0, _occ_cells(ca, 2), [], 100, 100)
    n1 = _client_node(1, _occ_cells(CB4[cb], 2), [], 100, 100)
    nl = m_rc.NodeList(nodes=[n0, n1])
    nl.uniform, nl.cores_per_node, nl.gpus_per_node = True, 2, 0
    nl.lfs_per_node, nl.mem_per_node = 100, 100
    nl.__verified__ = True
    pre = _client_snapshot([n0, n1])
    if fail_first:
        try:
            big = nl.find_slots(m_rc.RankRequirements(n_cores=2), n_slots=2)
        except ValueError:
            big = None
        if big is not None:
            nl.release_slots(big)
        check(_client_snapshot([n0, n1]) == pre, 'failed/undone find_slots '
              'left the node list changed')
    rr = m_rc.RankRequirements(n_cores=ncr, core_occupation=RRO[co],
                               lfs=[0, 60][lreq])
    try:
        slots = nl.find_slots(rr, n_slots=n)
    except ValueError:
        return
    if slots is None:
        check(_client_snapshot([n0, n1]) == pre, 'failed find_slots left '
              'resources allocated')
        return
    real(nl.release_slots, slots)
    reach()
    check(_client_snapshot([n0, n1]) == pre, 'after release %s != before %s',
          _client_snapshot([n0, n1]), pre)


# ------------------------------------------------------------------------------
# executor side: exactly one unschedule publication per task (shared with C07)
#
import harness.c07 as _c07                                        # noqa: E402


@obligation(params={'sw1': (0, _c07.M1), 'ebp': (0, 3), 'code': (0, 1),
                    'first': (0, 1), 'two_cancel': 'bool'},
            shapes={'quick': [{}], 'thorough': [{}]},
            partition={'quick': ('sw1', 21), 'thorough': ('sw1', 41)},
            timeout={'quick': 300, 'thorough': 900},
            funcs=_c07.FUNCS,
            bounds='as C07 h_cancel_vs_watcher with one pre-emption: a launched '
                   'task, cancel request(s) racing with the process watcher, '
                   'process exit before poll 1..3 or never',
            stubs=['see C07'])
def h_exec_release_cancel(sw1, ebp, code, first, two_cancel):
    """cancel racing with collection: resources are released exactly once"""
    _c07.h_cancel_vs_watcher(sw1, 0, ebp, code, first, two_cancel, quick=False)


@obligation(params={'sw1': (0, _c07.M2), 'ebp': (0, 2), 'cancel': (0, 2),
                    'fault': (0, 5)},
            partition={'quick': ('sw1', 31), 'thorough': ('sw1', 61)},
            timeout={'quick': 300, 'thorough': 900},
            funcs=_c07.FUNCS,
            bounds='as C07 h_launch_vs_cancel with one pre-emption: launch '
                   '(incl. 5 launch fault points) racing with a cancel request '
                   'and the watcher',
            stubs=['see C07'])
def h_exec_release_launch(sw1, ebp, cancel, fault):
    """launch errors and late cancels release resources exactly once"""
    _c07.h_launch_vs_cancel(sw1, 0, ebp, 0, cancel, fault, B=1)


# ------------------------------------------------------------------------------
@obligation(params={'sw1': (0, 30), 'sw2': (0, 30), 'bad': (0, 2),
                    'n': (1, 2), 'pre': 'bool'},
            shapes={'quick': [{'_ranges': {'bad': (2, 2)}}], 'thorough': [{}]},
            partition={'quick': ('sw1', 16), 'thorough': ('sw1', 31)},
            timeout={'quick': 300, 'thorough': 900},
            funcs=['radical/pilot/agent/executing/noop.py:NOOP.work',
                   'radical/pilot/agent/executing/noop.py:NOOP._collect'],
            bounds='as C07 h_noop (quick: all tasks can be handled): the NOOP executor '
                   'publishes exactly one release request per accepted task, '
                   'whatever the interleaving of intake and collector thread')
def h_noop_release(sw1, sw2, bad, n, pre):
    """NOOP executor: every task's resources are given back exactly once"""
    import harness.c07 as c07
    c07.h_noop(sw1, sw2, bad, n, pre)
