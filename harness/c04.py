"""
C04 - the pilot scheduler neither loses nor starves tasks.

The `while not self._term.is_set():` loop body of
AgentSchedulingComponent._schedule_tasks is sliced from /repo's current source
(AST) into a step function; the harness alternates symbolic events (task
arrival of a shape/priority, completion of a running task, cancel request) and
loop iterations of the real _schedule_waitpool / _schedule_incoming /
_unschedule_completed / _try_allocation / Continuous.schedule_task /
ru.lazy_bisect / BaseComponent._control_cb / is_canceled.
"""

import ast
import inspect
import textwrap

import radical.pilot.agent.scheduler.base as m_base
import radical.pilot.constants as rpc

from vfw.api import obligation, check, reach, trace, real, conc
from harness import sched as S
from harness.sched import FREE, BUSY, DOWN

META = {
    'explanation':
        'Bounded model checking of the real scheduler loop by symbolic '
        'execution (CrossHair+z3): the loop body of _schedule_tasks is sliced '
        'from the current source into a step function (validated to contain '
        'the three real sub-steps), and a symbolic event sequence (arrivals of '
        'tasks with symbolic shape and priority, completions of running tasks, '
        'cancel requests) is interleaved with loop iterations until the loop '
        'idles.  After every iteration each task is in exactly one of '
        '{started, waiting, failed, canceled} and reported at most once; at '
        'quiescence the liveness clauses of the property are checked against '
        'an independent "fits the free map / fits the idle pilot" oracle.',
    'assumes': ['scattered mode (the default): a task fits iff the free cores '
                'of the nodes can hold its ranks; the non-scattered continuity '
                'constraint is outside the liveness oracle',
                'the control thread interleaves only at queue.get() (it only '
                'appends to _cancel_list and puts on the queue)']}

FUNCS = ['radical/pilot/agent/scheduler/base.py:'
         'AgentSchedulingComponent._schedule_tasks (loop body slice)',
         'radical/pilot/agent/scheduler/base.py:'
         'AgentSchedulingComponent._schedule_waitpool',
         'radical/pilot/agent/scheduler/base.py:'
         'AgentSchedulingComponent._schedule_incoming',
         'radical/pilot/agent/scheduler/base.py:'
         'AgentSchedulingComponent._unschedule_completed',
         'radical/pilot/agent/scheduler/base.py:'
         'AgentSchedulingComponent._try_allocation',
         'radical/pilot/utils/component.py:BaseComponent._control_cb',
         'radical/pilot/utils/component.py:BaseComponent.is_canceled']


# ------------------------------------------------------------------------------
# loop body slice, regenerated from the source on every import
#
class _Sleep(Exception):
    pass


class _FakeTime(object):
    def __init__(self): self.sleeps = 0
    def sleep(self, d): self.sleeps += 1
    def time(self): return 0.0


def _slice_loop():
    src  = textwrap.dedent(inspect.getsource(
                           m_base.AgentSchedulingComponent._schedule_tasks))
    tree = ast.parse(src)
    fn   = tree.body[0]
    loop = [n for n in fn.body if isinstance(n, ast.While)]
    assert len(loop) == 1, 'expected exactly one top-level loop'
    loop = loop[0]
    assert 'self._term.is_set' in ast.unparse(loop.test), ast.unparse(loop.test)
    body = ast.unparse(ast.Module(body=loop.body, type_ignores=[]))
    for needed in ('_schedule_waitpool', '_schedule_incoming',
                   '_unschedule_completed'):
        assert needed in body, 'loop body lost %s' % needed
    code = 'def _loop_step(self, resources):\n' \
         + textwrap.indent(body, '    ') + '\n    return resources\n'
    ns = {}
    exec(compile(code, '<loop body of _schedule_tasks>', 'exec'),
         m_base.__dict__, ns)
    return ns['_loop_step'], code


_loop_step, LOOP_SRC = _slice_loop()

# task shapes: (ranks, cores_per_rank, mem_per_rank); node memory is 100
SHAPES = [(1, 1, 0), (1, 2, 100), (2, 2, 50), (3, 2, 0), (0, 1, 0), (1, 2, 0),
          (2, 2, 0), (2, 1, 0), (1, 5, 0), (-1, 1, 0)]
NSH    = len(SHAPES)
MEM    = 100


def fits(nodes_free, ranks, cpr, mem=0, mem_free=None):
    # scattered mode: ranks may land on any nodes; a non-mpi task on one
    if ranks <= 0: return False
    if mem_free is None: mem_free = [MEM] * len(nodes_free)
    n = 0
    for f, m in zip(nodes_free, mem_free):
        k = f // cpr
        if mem: k = min(k, m // mem)
        n += k
    if ranks == 1:
        return n >= 1
    return n >= ranks


class World(object):
    """scheduler + event application + bookkeeping of reports"""

    def __init__(self, n_nodes, cpn):
        self.cpn   = cpn
        self.nodes = S.mk_nodes([[FREE] * cpn for _ in range(n_nodes)],
                                [[] for _ in range(n_nodes)], 0, MEM)
        self.s     = S.mk_sched(self.nodes, cpn, 0, mem_per_node=MEM)
        self.time  = _FakeTime()
        m_base.time = self.time
        self.resources = True
        self.tasks   = {}       # uid -> task
        self.running = []       # uids started and not yet completed
        self.done    = []       # uids completed (released)
        self.cancel_req = set()
        self.n = 0

    # -- events
    def arrive(self, shape, prio):
        uid = 't%d' % self.n
        self.n += 1
        r, c, m = SHAPES[shape]
        t = S.mk_task(uid, ranks=r, cpr=c, mem=m, priority=prio)
        self.tasks[uid] = t
        self.s._queue_sched.put(([t], self.s._SCHEDULE))
        trace('arrive', uid, (r, c, m), 'prio', prio)
        return uid

    def complete(self, which):
        # which: 0 oldest running, 1 newest running
        if not self.running:
            return False
        uid = self.running.pop(0 if which == 0 else -1)
        self.done.append(uid)
        self.s._queue_unsched.put([self.tasks[uid]])
        trace('complete', uid)
        return True

    def cancel(self, idx):
        uids = ['t%d' % i for i in (idx if isinstance(idx, list) else [idx])]
        if any(u not in self.tasks for u in uids):
            return False
        self.cancel_req.update(uids)
        real(self.s._control_cb, rpc.CONTROL_PUBSUB,
             {'cmd': 'cancel_tasks', 'arg': {'uids': uids}})
        trace('cancel', uids)
        return True

    # -- one loop iteration of the real code
    def step(self):
        self.resources = real(_loop_step, self.s, self.resources)
        self.observe()

    def reports(self, uid):
        rep = {'started': 0, 'failed': 0, 'canceled': 0}
        for u, st, push in self.s.advanced:
            if u != uid: continue
            if st == 'AGENT_EXECUTING_PENDING': rep['started'] += 1
            if st == 'FAILED':   rep['failed']   += 1
            if st == 'CANCELED': rep['canceled'] += 1
        return rep

    def waiting(self, uid):
        return sum(1 for pool in self.s._waitpool.values() if uid in pool)

    def observe(self):
        # after every iteration: exactly one of started/waiting/failed/canceled
        for uid in self.tasks:
            rep = self.reports(uid)
            w   = self.waiting(uid)
            tot = rep['started'] + rep['failed'] + rep['canceled']
            check(tot <= 1, '%s reported more than once: %s', uid, rep)
            check(w <= 1, '%s is in %s wait pools', uid, w)
            check(tot + w == 1, '%s is in %s places: reports %s, waiting %s '
                  '(lost or duplicated)', uid, tot + w, rep, w)
            if rep['started'] and uid not in self.running \
                              and uid not in self.done:
                self.running.append(uid)
                check(bool(self.tasks[uid].get('slots')),
                      '%s started without a placement', uid)
            if rep['canceled']:
                check(uid in self.cancel_req, '%s CANCELED without a cancel '
                      'request', uid)

    def settle(self):
        # iterate until the loop idles twice in a row
        idle = 0
        for _ in range(8):
            before = self.time.sleeps
            self.step()
            idle = idle + 1 if self.time.sleeps > before else 0
            if idle >= 2:
                return
        check(False, 'scheduler loop does not come to rest (8 iterations)')

    def free(self):
        return [sum(1 for c in n['cores'] if c == FREE) for n in self.nodes]

    def mem_free(self):
        return [n['mem'] for n in self.nodes]

    def _req(self, uid):
        d = self.tasks[uid]['description']
        return d['ranks'], d['cores_per_rank'], d['mem_per_rank']

    def quiescent_checks(self):
        idle_free = [self.cpn] * len(self.nodes)
        free, mfree = self.free(), self.mem_free()
        waiting   = [u for u in self.tasks if self.waiting(u)]
        for uid, t in self.tasks.items():
            r, c, m = self._req(uid)
            rep  = self.reports(uid)
            if rep['failed']:
                check(not fits(idle_free, r, c, m), '%s (%s ranks x %s cores, '
                      'mem %s) fits the idle pilot but was FAILED: %s', uid, r,
                      c, m, t.get('exception'))
            if not fits(idle_free, r, c, m) and not self.running:
                # (while other tasks run it may still wait: the rule fires
                # when it is tried on the idle pilot)
                check(rep['failed'] == 1 or rep['canceled'] == 1,
                      '%s (%s x %s, mem %s) can never fit the pilot but is '
                      'not failed', uid, r, c, m)
        # a task waiting alone is started as soon as it fits
        if len(waiting) == 1:
            r, c, m = self._req(waiting[0])
            check(not fits(free, r, c, m, mfree), '%s waits alone although it '
                  'fits the free cores %s / memory %s', waiting[0], free, mfree)
        # an idle pilot starts at least one waiting task if each fits it
        if waiting and not self.running:
            allfit = all(fits(idle_free, *self._req(u)) for u in waiting)
            check(not allfit, 'idle pilot, waiting tasks %s all fit, none '
                  'started', waiting)
        # nobody who fits waits: if a waiting task fits the free map now, that
        # is a starvation
        for u in waiting:
            r, c, m = self._req(u)
            check(not fits(free, r, c, m, mfree), '%s (prio %s) waits although '
                  'it fits the free cores %s / memory %s', u,
                  self.tasks[u]['description']['priority'], free, mfree)


# event codes for an alphabet of `nsh` task shapes (SHAPES[:nsh]):
#   0                 nothing
#   1 .. nsh          arrival of shape k-1, priority 0
#   nsh+1 .. 2nsh     arrival of shape, priority 1
#   2nsh+1, 2nsh+2    completion of oldest / newest running task
#   2nsh+3, 2nsh+4    cancel request for task t0 / t1
#   2nsh+5            one cancel request naming t0 and t1
def nev(nsh):
    return 2 * nsh + 5


def apply_event(w, ev, nsh):
    if ev == 0:
        return True
    if ev <= nsh:
        w.arrive(ev - 1, 0);  return True
    if ev <= 2 * nsh:
        w.arrive(ev - nsh - 1, 1);  return True
    if ev <= 2 * nsh + 2:
        return w.complete(ev - 2 * nsh - 1)
    if ev == 2 * nsh + 5:
        return w.cancel([0, 1])
    return w.cancel(ev - 2 * nsh - 3)


def _rng(nsh, L, e0max=None):
    n = nev(nsh)
    return {'e0': (1, e0max or 2 * nsh), 'e1': (0, n),
            'e2': (0, n if L >= 3 else 0), 'e3': (0, n if L >= 4 else 0)}


@obligation(params={'e0': (1, 2 * NSH), 'e1': (0, nev(NSH)), 'e2': (0, nev(NSH)),
                    'e3': (0, nev(NSH)), 'st': (0, 2)},
            shapes={'quick': [{'n_nodes': 1, 'cpn': 4, 'L': 3, 'nsh': 5,
                               '_ranges': _rng(5, 3, e0max=5)}],
                    'thorough': [{'n_nodes': 1, 'cpn': 4, 'L': 3, 'nsh': 10,
                                  '_ranges': dict(_rng(10, 3), st=(0, 0))},
                                 {'n_nodes': 1, 'cpn': 4, 'L': 3, 'nsh': 6,
                                  '_ranges': dict(_rng(6, 3), st=(1, 2))},
                                 {'n_nodes': 1, 'cpn': 4, 'L': 4, 'nsh': 3,
                                  '_ranges': dict(_rng(3, 4), st=(0, 0))},
                                 {'n_nodes': 2, 'cpn': 2, 'L': 3, 'nsh': 5,
                                  '_ranges': _rng(5, 3)}]},
            partition={'quick': ('e1', 16), 'thorough': ('e1', 22)},
            timeout={'quick': 300, 'thorough': 3000},
            funcs=FUNCS,
            bounds='pilot of n_nodes x cpn cores (no GPUs); event sequence of '
                   'length L over {arrival of one of the first nsh of 10 task '
                   'shapes (ranks x cores/rank[, mem/rank of 100 per node]: 1x1 '
                   '1x2m100 2x2m50 3x2 0x1 1x2 2x2 2x1 1x5 -1x1) with priority '
                   '0/1, completion of the oldest/newest '
                   'running task, cancel request for task 0 / 1 / both}; the loop runs '
                   'to rest after every event, or not between events 0 and 1, '
                   'or not between events 1 and 2 (several arrivals in one '
                   'intake); quick: first event is a priority-0 arrival; '
                   'thorough: L=3 over all 10 shapes (loop at rest after every '
                   'event), L=3 over 6 shapes with grouped intakes, L=4 over 3 '
                   'shapes, 2 nodes x 2 cores over 5 shapes',
            stubs=['mp.Queue -> in-memory queues', 'advance -> recorder',
                   'time.sleep -> counter', '_log/_prof no-op'])
def h_loop(e0, e1, e2, e3, st, n_nodes=1, cpn=4, L=3, nsh=NSH):
    """no task is lost, duplicated or starved by the scheduling loop"""
    n   = nev(nsh)
    evs = [conc(e0, 1, 2 * nsh), conc(e1, 0, n),
           conc(e2, 0, n) if L >= 3 else 0, conc(e3, 0, n) if L >= 4 else 0]
    w = World(n_nodes, cpn)
    for i, ev in enumerate(evs[:L]):
        if not apply_event(w, ev, nsh):
            return                       # event not applicable: not a history
        if (i == 0 and st == 1) or (i == 1 and st == 2):
            continue                     # two events before the loop runs
        w.settle()
    w.settle()
    reach()
    trace('advanced', w.s.advanced, 'free', w.free(),
          'waitpool', {p: list(d) for p, d in w.s._waitpool.items()})
    w.quiescent_checks()


PSH = [(1, 1, 0), (1, 2, 0), (2, 1, 0), (2, 2, 0)]


# ------------------------------------------------------------------------------
@obligation(params={'hi_first': 'bool', 'sh_lo': (0, 3), 'sh_hi': (0, 3),
                    'blocker': (1, 3)},
            timeout={'quick': 300, 'thorough': 600},
            funcs=FUNCS,
            bounds='1 node x 4 cores; a blocker task holds 2..4 cores (shapes '
                   '1x2 / 2x1+... ), two tasks of priority 0 and 1 (shapes from '
                   '1x1 1x2 2x1 2x2) arrive in either order and wait; the '
                   'blocker completes')
def h_priority(hi_first, sh_lo, sh_hi, blocker):
    """when a release admits only one of two waiting tasks, the higher
    priority one is started"""
    sh_lo, sh_hi, blocker = conc(sh_lo, 0, 3), conc(sh_hi, 0, 3), \
                            conc(blocker, 1, 3)
    w = World(1, 4)
    # blocker: take all 4 cores with `blocker`-many tasks
    bl = {1: [(2, 2)], 2: [(1, 2), (1, 2)], 3: [(1, 2), (1, 1), (1, 1)]}[blocker]
    for r, c in bl:
        uid = 't%d' % w.n; w.n += 1
        t = S.mk_task(uid, ranks=r, cpr=c)
        w.tasks[uid] = t
        w.s._queue_sched.put(([t], w.s._SCHEDULE))
    w.settle()
    check(w.free() == [0], 'setup: pilot not full: %s', w.free())
    first, second = ((sh_hi, 1), (sh_lo, 0)) if hi_first else \
                    ((sh_lo, 0), (sh_hi, 1))
    u1 = w.arrive(SHAPES.index(PSH[first[0]]),  first[1]);  w.settle()
    u2 = w.arrive(SHAPES.index(PSH[second[0]]), second[1]); w.settle()
    hi, lo = (u1, u2) if hi_first else (u2, u1)
    check(w.waiting(hi) and w.waiting(lo), 'setup: both must wait')
    w.complete(0)            # oldest blocker task leaves
    w.settle()
    reach()
    rhi, chi, _ = PSH[sh_hi]
    rlo, clo, _ = PSH[sh_lo]
    freed = bl[0][0] * bl[0][1]
    trace('freed', freed, 'hi', (rhi, chi), 'lo', (rlo, clo),
          'advanced', w.s.advanced)
    hi_fits, lo_fits = rhi * chi <= freed, rlo * clo <= freed
    both = rhi * chi + rlo * clo <= freed
    if hi_fits and lo_fits and not both:
        check(w.reports(hi)['started'] == 1 and w.reports(lo)['started'] == 0,
              'release of %s cores admits one of hi=%s lo=%s: started hi=%s '
              'lo=%s', freed, (rhi, chi), (rlo, clo),
              w.reports(hi)['started'], w.reports(lo)['started'])
    if hi_fits:
        check(w.reports(hi)['started'] == 1, 'higher priority task fits the '
              'released cores but was not started')


# ------------------------------------------------------------------------------
# a release collected in the same loop pass as a new arrival is not forgotten
#
@obligation(params={'s1': (0, 2), 's2': (0, 2), 'first': (0, 1), 'rsh': (0, 1)},
            timeout={'quick': 300, 'thorough': 600},
            funcs=FUNCS,
            bounds='1 node x 4 cores; task R fills the pilot (2x2 or 1x4); T1 '
                   '(1x1 / 1x2 / 2x1) arrives and waits; then T2 (same shapes) '
                   'arrives and R completes before the loop runs again (either '
                   'queueing order): both are in the queues of one loop pass')
def h_release_in_busy_pass(s1, s2, first, rsh):
    """the pilot drains: everything that waits and fits is started"""
    s1, s2, first, rsh = conc(s1, 0, 2), conc(s2, 0, 2), conc(first, 0, 1), \
                         conc(rsh, 0, 1)
    shp = [(1, 1), (1, 2), (2, 1)]
    w = World(1, 4)
    def put(uid, r, c, prio=0):
        t = S.mk_task(uid, ranks=r, cpr=c, priority=prio)
        w.tasks[uid] = t
        w.n += 1
        w.s._queue_sched.put(([t], w.s._SCHEDULE))
    put('t0', *[(2, 2), (1, 4)][rsh])
    w.settle()
    check(w.free() == [0], 'setup: pilot not full: %s', w.free())
    put('t1', *shp[s1])
    w.settle()
    check(w.waiting('t1') == 1, 'setup: t1 must wait')
    if first == 0:
        put('t2', *shp[s2]); w.complete(0)
    else:
        w.complete(0); put('t2', *shp[s2])
    w.settle()
    reach()
    trace('advanced', w.s.advanced, 'free', w.free())
    for uid in ('t1', 't2'):
        check(w.reports(uid)['started'] == 1, '%s was never started although '
              'the pilot is idle and it fits (free cores %s, waiting: %s)',
              uid, w.free(), w.waiting(uid))
    w.quiescent_checks()
