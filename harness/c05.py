"""
C05 - every task ends in one final state that tells the truth (safety half).

The liveness half (every task reaches a final state across ten processes and
arbitrary ZMQ delivery orders) is outside what can be encoded.  Claimed are
local lemmas which compose along the pipeline because each component owns a
task exclusively between advance() calls:

  L1  BaseComponent.work_cb: a raising work routine fails exactly the things
      of that bulk (with the exception recorded), the component survives,
      later bulks are processed; things canceled at intake stay CANCELED.
  L2  Popen._check_running: target_state == DONE iff exit code == 0, else
      FAILED with exit code and exception recorded (symbolic exit code).
      raptor Master._result_cb likewise (see C20).
  L3  AgentComponent.advance(FAILED|CANCELED): the full task is published with
      target_state set and control handed to the client, not pushed.
  L4  output staging: the final state is the target state, FAILED if staging
      raised, never DONE for a failed process (shared with C11).
  L5  what is published as final is what the application sees (shared with
      C06).
  L6  CANCELED only after a cancel request / time-out (shared with C04, C07).
"""

import radical.utils as ru
import radical.pilot.states as rps
import radical.pilot.constants as rpc
import radical.pilot.utils.component as m_comp

from vfw.api import obligation, check, reach, trace, real, conc, Null
from vfw import coro as C
from harness import comp as K
from harness import execu as X
import harness.c06 as c06
import harness.c07 as c07
import harness.c11 as c11
import harness.c20 as c20

META = {
    'explanation':
        'Safety lemmas decided by bounded symbolic execution (CrossHair+z3) of '
        'the real code, one per hand-over point of the task pipeline (see the '
        'module docstring of harness/c05.py): work routine failure handling in '
        'BaseComponent.work_cb, exit code -> target state in '
        'Popen._check_running (symbolic exit code) and Master._result_cb, the '
        'agent-side FAILED/CANCELED hand-over in AgentComponent.advance, final '
        'state == target state in output staging, final state seen by the '
        'application, CANCELED only after a cancel request.',
    'assumes': ['PARTIAL CLAIM: the liveness half of the property ("reaches '
                'exactly one final state as long as its pilot is alive") over '
                'OS processes and ZMQ delivery orders is not encoded; the '
                'lemmas compose under the base-class contract that a task is '
                'owned by one component between advance() calls']}


# ------------------------------------------------------------------------------
@obligation(params={'n': (1, 3), 'raise_at': (0, 3), 'canceled': (0, 3),
                    'second': 'bool'},
            timeout={'quick': 200, 'thorough': 400},
            funcs=['radical/pilot/utils/component.py:BaseComponent.work_cb',
                   'radical/pilot/utils/component.py:BaseComponent.is_canceled',
                   'radical/pilot/utils/component.py:BaseComponent._control_cb'],
            bounds='bulk of 1..3 tasks; the work routine raises when it meets '
                   'task raise_at (3 = never); task `canceled` (3 = none) has a '
                   'pending cancel request; optionally a second bulk follows',
            stubs=['input queue -> in-memory', 'advance -> recorder'])
def h_work_failure(n, raise_at, canceled, second):
    """an error in the work routine fails that bulk only, truthfully"""
    n, raise_at, canceled = conc(n, 1, 3), conc(raise_at, 0, 3), \
                            conc(canceled, 0, 3)
    worked = []
    def worker(things):
        for t in things:
            if t['uid'] == 't%d' % raise_at:
                raise ValueError('cannot handle %s' % t['uid'])
            worked.append(t['uid'])
    st = rps.AGENT_STAGING_INPUT_PENDING
    c  = K.mk_component(st, worker)
    tasks = [{'uid': 't%d' % i, 'type': 'task', 'state': st} for i in range(n)]
    if canceled < 3:
        real(c._control_cb, rpc.CONTROL_PUBSUB,
             {'cmd': 'cancel_tasks', 'arg': {'uids': ['t%d' % canceled]}})
    c.inq.bulks.append(tasks)
    if second:
        c.inq.bulks.append([{'uid': 'u0', 'type': 'task', 'state': st}])
    check(real(c.work_cb) is True, 'component gave up after the first bulk')
    if second:
        check(real(c.work_cb) is True, 'component gave up')
    reach()
    hit = raise_at < n and raise_at != canceled
    for i, t in enumerate(tasks):
        rep = [s for u, s, _ in c.advanced if u == t['uid']]
        if i == canceled:
            check(rep == [rps.CANCELED], 'canceled task %s reports %s',
                  t['uid'], rep)
            check(t['uid'] not in worked, 'canceled task was worked on')
        elif hit:
            check(rep == [rps.FAILED], 'task %s of the failing bulk reports '
                  '%s', t['uid'], rep)
            check('cannot handle' in str(t.get('exception')), 'exception not '
                  'recorded on %s: %r', t['uid'], t.get('exception'))
        else:
            check(rep == [] and t['uid'] in worked, 'task %s: reports %s, '
                  'worked on: %s', t['uid'], rep, t['uid'] in worked)
    if second:
        check('u0' in worked and not [1 for u, s, _ in c.advanced if u == 'u0'],
              'the bulk after a failure was not processed normally')


# ------------------------------------------------------------------------------
XCODES = [0, 1, 2, 3, 127, 255, -1, -9, -15]


@obligation(params={'code': (0, 8), 'two': 'bool', 'code2': (0, 8)},
            timeout={'quick': 300, 'thorough': 600},
            funcs=['radical/pilot/agent/executing/popen.py:Popen._check_running'],
            bounds='1..2 exited processes with exit codes from {0, 1, 2, 3, '
                   '127, 255, -1, -9, -15} (negative = killed by a signal; a '
                   'fully symbolic code is inconclusive: the real code formats '
                   'it into a string)',
            stubs=['see C07'])
def h_exit_code(code, two, code2):
    """DONE iff the process exited with 0; FAILED with code + exception"""
    if not two and code2: return
    code, code2 = XCODES[conc(code, 0, 8)], XCODES[conc(code2, 0, 8)]
    env = X.Env(1, 0)
    ex  = X.mk_popen(env, 'none', watch_iters=1)
    ts  = [X.mk_xtask('t0')] + ([X.mk_xtask('t1')] if two else [])
    for t, c in zip(ts, (code, code2)):
        p = X.FakeProc(env, 4100)
        p.exited, p.code = True, c
        t['proc'] = p
        ex._tasks[t['uid']] = t
    real(ex._check_running, list(ts))
    reach()
    for t, c in zip(ts, (code, code2)):
        adv = [e for e in ex.events if e[0] == 'advance' and e[1] == t['uid']]
        check(len(adv) == 1 and adv[0][2] == rps.AGENT_STAGING_OUTPUT_PENDING,
              '%s advanced %s', t['uid'], adv)
        check(t['exit_code'] == c, 'exit code %s recorded, process returned %s',
              t['exit_code'], c)
        if c == 0:
            check(t['target_state'] == rps.DONE, 'exit 0 -> %s',
                  t['target_state'])
        else:
            check(t['target_state'] == rps.FAILED, 'exit code %s -> %s', c,
                  t['target_state'])
            check(t.get('exception'), 'failed process without exception')


# ------------------------------------------------------------------------------
class CapPub(object):
    def __init__(self): self.msgs = []
    def put(self, topic, msg): self.msgs.append((topic, msg))


class OutQ(object):
    channel = 'out'
    def __init__(self): self.items = []
    def put(self, things, qname=None): self.items.extend(things)


@obligation(params={'st': (0, 2), 'push': 'bool', 'publish': 'bool'},
            timeout={'quick': 200, 'thorough': 400},
            funcs=['radical/pilot/utils/component.py:AgentComponent.advance',
                   'radical/pilot/utils/component.py:BaseComponent.advance',
                   'radical/pilot/utils/component.py:BaseComponent.publish'],
            bounds='agent-side advance of a task to FAILED / CANCELED / a '
                   'non-final state with any publish/push arguments')
def h_agent_final_handover(st, push, publish):
    """agent-side FAILED/CANCELED is handed to the client in full, once"""
    st = conc(st, 0, 2)
    c = object.__new__(m_comp.AgentComponent)
    c._uid, c._log, c._prof = 'comp.0', Null(), Null()
    cap, outq = CapPub(), OutQ()
    c._publishers = {rpc.STATE_PUBSUB: cap}
    state = [rps.FAILED, rps.CANCELED, rps.AGENT_STAGING_OUTPUT_PENDING][st]
    c._outputs = {rps.AGENT_STAGING_OUTPUT_PENDING: outq}
    task = {'uid': 't0', 'type': 'task', 'state': rps.AGENT_EXECUTING,
            'exit_code': 3, 'exception': 'E', 'description': {'x': 1}}
    real(c.advance, task, state, publish=publish, push=push)
    reach()
    if state in (rps.FAILED, rps.CANCELED):
        check(len(cap.msgs) == 1, 'final state published %s times',
              len(cap.msgs))
        arg = cap.msgs[0][1]['arg'][0]
        check(arg.get('state') == state and arg.get('target_state') == state
              and arg.get('control') == 'tmgr_pending'
              and arg.get('exit_code') == 3 and arg.get('exception') == 'E',
              'final hand-over incomplete: %s', arg)
        check(cap.msgs[0][1].get('fwd') is True, 'final state not forwarded '
              'to the client')
        check(not outq.items, 'final task pushed downstream')
    else:
        check(len(cap.msgs) == (1 if publish else 0), 'publications: %s',
              len(cap.msgs))
        check(len(outq.items) == (1 if push else 0), 'pushes: %s',
              len(outq.items))


# ------------------------------------------------------------------------------
@obligation(params={'act': (0, 3), 'ab': (0, 23), 'ts': (0, 2),
                    'soe': 'bool', 'fail_at': (0, 2)},
            shapes={'quick': [{'_ranges': {'ab': (0, 5)}}], 'thorough': [{}]},
            partition={'quick': ('ab', 6), 'thorough': ('ab', 24)},
            timeout={'quick': 300, 'thorough': 900},
            funcs=['radical/pilot/agent/staging_output/default.py:Default.work',
                   'radical/pilot/tmgr/staging_output/default.py:Default.work'],
            bounds='as C11 h_stage_out (quick: 6 source/target combinations)')
def h_final_state_after_stageout(act, ab, ts, soe, fail_at):
    """the final state is the target state; FAILED if staging raised"""
    c11.h_stage_out(act, ab, ts, soe, fail_at)


@obligation(params={'ic': (0, c06.N_T - 1), 'it': (15, 17), 'dup': 'bool'},
            timeout={'quick': 300, 'thorough': 600},
            funcs=c06.FUNCS,
            bounds='as C06 h_step restricted to final-state notifications: any '
                   'current state x DONE/FAILED/CANCELED')
def h_final_state_seen(ic, it, dup):
    """the published final state is the one the application sees, once"""
    c06.h_step(ic, it, dup)


@obligation(params={'ec_kind': (0, 2), 'ec': (-300, 300), 'preset': (0, 2)},
            timeout={'quick': 200, 'thorough': 400},
            funcs=['radical/pilot/raptor/master.py:Master._result_cb'],
            bounds='as C20 h_master_result')
def h_raptor_result(ec_kind, ec, preset):
    """raptor requests: DONE iff exit code 0"""
    c20.h_master_result(ec_kind, ec, preset, False, False)


@obligation(params={'sw1': (0, c07.M1), 'ebp': (0, 3), 'code': (0, 1),
                    'first': (0, 1)},
            partition={'quick': ('sw1', 21), 'thorough': ('sw1', 41)},
            timeout={'quick': 300, 'thorough': 900},
            funcs=c07.FUNCS,
            bounds='as C07 h_cancel_vs_watcher with one pre-emption and one '
                   'canceller: process exit before poll 1..3 or never, exit '
                   'code 0 / 3')
def h_never_left_behind(sw1, ebp, code, first):
    """whoever wins the cancel/collect race, the task is handed on once with
    an outcome (it reaches a final state)"""
    c07.h_cancel_vs_watcher(sw1, 0, ebp, code, first, False, quick=False)


# ------------------------------------------------------------------------------
# L7: the agent scheduler leaves no task behind: whatever arrives in one intake
# (several tasks, several priorities, pilot full or not) is started, waiting,
# failed or canceled - and everything that waits is started once the pilot
# drains
#
import harness.c04 as c04                                          # noqa: E402
import harness.sched as HS                                         # noqa: E402

BULK_PRIOS = [(0,), (0, 0), (0, 1), (1, 0), (0, 2, 1), (2, 0, 1), (1, 1, 0),
              (0, 1, 2)]


@obligation(params={'bp': (0, len(BULK_PRIOS) - 1), 'full': 'bool',
                    'big': (0, 3)},
            timeout={'quick': 300, 'thorough': 600},
            funcs=c04.FUNCS,
            bounds='1 node x 4 cores, idle or fully occupied by one task; one '
                   'intake of 1..3 tasks with priorities from 8 patterns over '
                   '{0,1,2}, each 1 rank x 1 core except one optional task of 2 '
                   'cores; then the running tasks complete one by one')
def h_sched_never_left_behind(bp, full, big):
    """every task of an intake is somewhere; all are started in the end"""
    bp, big = conc(bp, 0, len(BULK_PRIOS) - 1), conc(big, 0, 3)
    w = c04.World(1, 4)
    if full:
        t = HS.mk_task('t0', ranks=1, cpr=4)
        w.tasks['t0'] = t; w.n = 1
        w.s._queue_sched.put(([t], w.s._SCHEDULE))
        w.settle()
        check(w.free() == [0], 'setup: pilot not full')
    bulk = []
    for i, prio in enumerate(BULK_PRIOS[bp]):
        uid = 't%d' % w.n; w.n += 1
        t = HS.mk_task(uid, ranks=1, cpr=2 if big == i + 1 else 1,
                       priority=prio)
        w.tasks[uid] = t
        bulk.append(t)
    w.s._queue_sched.put((bulk, w.s._SCHEDULE))
    w.settle()                 # observe(): each task in exactly one place
    for _ in range(len(w.tasks) + 1):
        if not w.complete(0): break
        w.settle()
    reach()
    trace('advanced', w.s.advanced)
    for uid in w.tasks:
        rep = w.reports(uid)
        check(rep['started'] == 1 and not rep['failed'], '%s (priority %s) '
              'was never started although the pilot drained: reports %s, '
              'waiting %s', uid, w.tasks[uid]['description']['priority'], rep,
              w.waiting(uid))
