"""
C06 - applications observe the linear task state model.

Real code: states._task_state_progress, TaskManager._update_tasks,
TaskManager._task_cb, Task._update.
"""

from vfw.api import obligation, check, reach, trace, real
from harness.common import (rp, rps, rpc, TSTATES, TVAL, N_T, FINAL,
                            mk_tmgr, add_task)

FUNCS = ['radical/pilot/states.py:_task_state_progress',
         'radical/pilot/task_manager.py:TaskManager._update_tasks',
         'radical/pilot/task_manager.py:TaskManager._task_cb',
         'radical/pilot/task.py:Task._update']

META = {
    'explanation':
        'Inductive step over the client-side task state machine, decided by '
        'bounded symbolic execution (CrossHair+z3) of the real '
        'TaskManager._update_tasks/_task_cb, Task._update and '
        'states._task_state_progress: from an ARBITRARY current state of each '
        'task (every state of the model) one batch of notifications with '
        'arbitrary states is processed; the delivered callback sequence and '
        'Task.state are checked against the linear model.  Because the '
        'pre-state is arbitrary, one step covers notification histories of any '
        'length (the invariant is: Task.state is the last announced state and '
        'everything announced earlier has a smaller model value).',
}


def _setup(states):
    tm   = mk_tmgr()
    seen = []
    def cb(task, state):
        seen.append((task.uid, state, task.state))
    tm._callbacks[rpc.TASK_STATE]['*'] = {'cb_wild': {'cb': cb, 'cb_data': None}}
    tasks = []
    for i, s in enumerate(states):
        tasks.append(add_task(tm, 't%d' % i, s))
    return tm, tasks, seen


def _check_delivery(uid, cur, tgt, seq, new_state):
    """seq: states announced for this uid by this batch; cur: state before"""
    vc = TVAL[cur]
    # final is sticky
    if cur in FINAL:
        check(new_state == cur, '%s: final state %s changed to %s by '
              'notification %s' % (uid, cur, new_state, tgt))
        check(not seq, '%s: callbacks %s after final state %s' % (uid, seq, cur))
        return
    # each announced state moves forward, at most once
    prev = vc
    for s in seq:
        v = TVAL[s]
        check(v > prev, '%s: announced %s (value %d) after value %d'
              % (uid, s, v, prev))
        if s not in (rps.FAILED, rps.CANCELED):
            check(v == prev + 1, '%s: state %s announced after value %d: '
                  'intermediate states not filled in' % (uid, s, prev))
        prev = v
    check(len(set(seq)) == len(seq), '%s: state announced twice %s' % (uid, seq))
    # outcome
    vt = TVAL[tgt]
    if vt > vc:
        check(new_state == tgt, '%s: %s -> notification %s left state %s'
              % (uid, cur, tgt, new_state))
        check(seq and seq[-1] == tgt, '%s: target %s not announced: %s'
              % (uid, tgt, seq))
    else:
        check(new_state == cur, '%s: late/duplicate notification %s moved '
              'state %s to %s' % (uid, tgt, cur, new_state))
        check(not seq, '%s: late notification %s announced %s' % (uid, tgt, seq))


# ------------------------------------------------------------------------------
@obligation(params={'ic': (0, N_T - 1), 'it': (0, N_T - 1), 'dup': 'bool'},
            partition={'thorough': ('ic', 6)},
            timeout={'quick': 200, 'thorough': 600},
            funcs=FUNCS,
            bounds='1 task, arbitrary current state (18) x arbitrary notified '
                   'state (18), optionally the same notification twice in the '
                   'batch',
            stubs=['_log/_prof no-op', 'threading locks -> no-op context '
                   'managers (single thread)'])
def h_step(ic, it, dup):
    """one task: one batch from an arbitrary state obeys the linear model"""
    cur, tgt = TSTATES[ic], TSTATES[it]
    tm, (t,), seen = _setup([cur])
    batch = [{'uid': 't0', 'state': tgt, 'type': 'task'}]
    if dup:
        batch.append({'uid': 't0', 'state': tgt, 'type': 'task'})
    try:
        tm._update_tasks(batch)
    except Exception as e:
        trace('raised', repr(e))
    seq = [s for u, s, _ in seen]
    trace('cur', cur, 'tgt', tgt, 'seen', seen, 'state', t.state)
    reach()
    _check_delivery('t0', cur, tgt, seq, t.state)
    # Task.state at callback time is the announced state or later
    for u, s, ts in seen:
        check(TVAL[ts] >= TVAL[s], 'callback %s saw Task.state %s' % (s, ts))


# ------------------------------------------------------------------------------
# task B combos: (current, notified)
_B = [(rps.NEW, rps.TMGR_SCHEDULING_PENDING),
      (rps.AGENT_EXECUTING, rps.DONE),
      (rps.AGENT_SCHEDULING, rps.FAILED),
      (rps.DONE, rps.DONE)]


@obligation(params={'ic': (0, N_T - 1), 'it': (0, N_T - 1),
                    'a_first': 'bool', 'ib': (0, len(_B) - 1)},
            partition={'quick': ('ic', 9), 'thorough': ('ic', 18)},
            timeout={'quick': 200, 'thorough': 600},
            funcs=FUNCS,
            bounds='2 tasks in one batch: task A arbitrary (18x18), task B '
                   'from 4 representative (current, notified) pairs, both '
                   'orders',
            stubs=['_log/_prof no-op', 'locks no-op'])
def h_batch(ic, it, a_first, ib):
    """a notification for task A (any kind) never prevents B's update"""
    cur, tgt   = TSTATES[ic], TSTATES[it]
    bcur, btgt = _B[ib]
    tm, (ta, tb), seen = _setup([cur, bcur])
    na = {'uid': 't0', 'state': tgt,  'type': 'task'}
    nb = {'uid': 't1', 'state': btgt, 'type': 'task'}
    batch = [na, nb] if a_first else [nb, na]
    try:
        tm._update_tasks(batch)
    except Exception as e:
        trace('raised', repr(e))
    reach()
    seq_a = [s for u, s, _ in seen if u == 't0']
    seq_b = [s for u, s, _ in seen if u == 't1']
    trace('seen', seen, ta.state, tb.state)
    _check_delivery('t1', bcur, btgt, seq_b, tb.state)
    _check_delivery('t0', cur,  tgt,  seq_a, ta.state)


# ------------------------------------------------------------------------------
# a final task stays what it is when its pilot ends afterwards (the other way
# a task state can be written on the client: TaskManager._pilot_state_cb)
#
@obligation(params={'bind': (0, 2), 'fin': (15, 17), 'pfin': (5, 7),
                    'first': (1, 2), 'both': 'bool'},
            timeout={'quick': 200, 'thorough': 400},
            funcs=['radical/pilot/task_manager.py:TaskManager._pilot_state_cb',
                   'radical/pilot/task.py:Task._update'],
            bounds='as C13 h_pilot_final restricted to a task that is already '
                   'DONE / FAILED / CANCELED (bound to p0 / p1 / unbound): the '
                   'pilot(s) end in DONE / FAILED / CANCELED afterwards')
def h_final_survives_pilot_end(bind, fin, pfin, first, both):
    """once final, a task's state never changes - also when its pilot dies"""
    import harness.c13 as c13
    c13.h_pilot_final(bind, fin, pfin, first, both)
