"""
C07 - the executor finishes each task exactly once.

Real code as coroutines (vfw.coro, regenerated from the source on every run):
Popen.work/_handle_task/_launch_task/_watch/_check_running/cancel_task,
AgentExecutingComponent.control_cb/handle_timeout,
BaseComponent._control_cb/is_canceled; LaunchMethod.cancel_task (plain).
The thread schedule, the moment of process exit, the exit code, the presence
and position of a cancel request and the launch fault point are solver
variables.
"""

import radical.pilot.states as rps
import radical.pilot.constants as rpc

from vfw.api import obligation, check, reach, trace, conc
from vfw import coro as C
from harness import execu as X

META = {
    'explanation':
        'Bounded model checking of the real Popen executor by symbolic '
        'execution (CrossHair+z3): the methods run by the component thread, '
        'the process watcher, the control (cancel) thread and a second '
        'canceller are turned into coroutines by an AST pass over the current '
        'source (yield before every statement touching shared state, locks '
        'made cooperative) and run by a deterministic scheduler under a '
        'symbolic schedule with a context bound (pre-emption points are '
        'solver variables), together with a symbolic process-exit moment '
        '(index of the poll() call before which the process ends), symbolic '
        'exit code and symbolic launch fault point.  The recorded advance / '
        'publish trace is checked per task: AGENT_EXECUTING once, exactly one '
        'hand-over (output staging with outcome, or final state), exactly one '
        'unschedule request.',
    'assumes': ['a Python simple statement is atomic (GIL); pre-emption only '
                'before statements that touch shared state (sound partial-'
                'order reduction for local statements)',
                'at most B pre-emptions per run (context bound, B = 2)',
                'launch faults after the process was spawned (handle_timeout '
                'raising) are outside the claim']}

FUNCS = ['radical/pilot/agent/executing/popen.py:Popen.' + n for n in
         ('work', '_handle_task', '_launch_task', '_watch', '_check_running',
          'cancel_task')] + \
        ['radical/pilot/agent/executing/base.py:AgentExecutingComponent.'
         'control_cb',
         'radical/pilot/utils/component.py:BaseComponent._control_cb',
         'radical/pilot/utils/component.py:BaseComponent.is_canceled',
         'radical/pilot/agent/launch_method/base.py:LaunchMethod.cancel_task']


# ------------------------------------------------------------------------------
# translator validation: coroutines driven sequentially == plain methods
#
def _scenario(use_coro, fault, exit_before_poll, code, cancel_at):
    env = X.Env(exit_before_poll, code)
    ex  = X.mk_popen(env, fault, watch_iters=2)
    t   = X.mk_xtask('t0')
    if cancel_at == 0:
        (C.run_sequential(X.CORO['_control_cb'](ex, 'ctl', X.cancel_msg(['t0'])))
         if use_coro else ex._control_cb('ctl', X.cancel_msg(['t0'])))
    (C.run_sequential(X.CORO['work'](ex, [t])) if use_coro else ex.work([t]))
    if cancel_at == 1:
        (C.run_sequential(X.CORO['_control_cb'](ex, 'ctl', X.cancel_msg(['t0'])))
         if use_coro else ex._control_cb('ctl', X.cancel_msg(['t0'])))
    (C.run_sequential(X.CORO['_watch'](ex)) if use_coro else ex._watch())
    return ex.events, sorted(ex._tasks), list(ex._cancel_list)


def validate():
    n = 0
    for fault in X.FAULTS:
        for ebp in (0, 1, 2):
            for cancel_at in (None, 0, 1):
                a = _scenario(False, fault, ebp, 3, cancel_at)
                b = _scenario(True,  fault, ebp, 3, cancel_at)
                if a != b:
                    raise RuntimeError('coroutine translation differs from '
                                       'the plain methods for %s: %s vs %s'
                                       % ((fault, ebp, cancel_at), a, b))
                n += 1
    return n


VALIDATED = validate()


# ------------------------------------------------------------------------------
def _switches(sw1, sw2, m):
    # pre-emption points: 0 = unused
    sw1, sw2 = conc(sw1, 0, m), conc(sw2, 0, m)
    return [s for s in (sw1, sw2) if s]


def _finish(ex, env):
    # the watcher keeps running and every process ends eventually: let a still
    # running process exit now and give the watcher two more iterations
    env.exit_before_poll = 1
    # (`to_watch` is a local of _watch: the tasks the executor had handed to
    # its watcher - and only those - are given to the new invocation)
    for t in list(ex._tasks.values()):
        if 'proc' in t and t not in ex._watch_queue.items \
                       and any(t is x for x in ex._watch_queue.seen):
            ex._watch_queue.items.append(t)
    ex._term = X.CountdownEvent(2)
    C.run_sequential(X.CORO['_watch'](ex))


M1 = 40


CODES = [0, 3, -9, 255]


@obligation(params={'sw1': (0, M1), 'sw2': (0, M1), 'ebp': (0, 4),
                    'code': (0, 3), 'first': (0, 1), 'two_cancel': 'bool'},
            shapes={'quick': [{'quick': True}], 'thorough': [{'quick': False}]},
            partition={'quick': ('sw1', 41), 'thorough': ('sw1', 41)},
            timeout={'quick': 300, 'thorough': 3000},
            funcs=FUNCS,
            bounds='one launched, running task; threads: control thread '
                   '(cancel_tasks message), optionally a second canceller '
                   '(timeout thread), watcher (3 iterations); <= 2 '
                   'pre-emptions at any of the first 40 yield points; process '
                   'exits before the k-th poll() (k = 1..4) or only when '
                   'killed; exit code in {0, 3, -9} (quick: {0, 3}); the second '
                   'pre-emption within 12 steps of the first (4 when two '
                   'cancellers run; quick: 8 / only one pre-emption, exit '
                   'before poll 1..2 or never)',
            stubs=['sp.Popen -> fake process', 'os.killpg -> marks the fake '
                   'process killed', 'publish/advance -> recorders', 'script '
                   'writers and find_launcher -> stubs', 'locks -> cooperative '
                   'locks'])
def h_cancel_vs_watcher(sw1, sw2, ebp, code, first, two_cancel, quick=False):
    """cancel racing with the watcher: one hand-over, one release"""
    if sw2 and sw2 < sw1: return
    if quick:
        # quick tier: 2 pre-emptions for one canceller, 1 for two cancellers;
        # exit codes {0, 3}; process exit before poll 1..3 or never
        if code > 1 or ebp > 2: return
        if two_cancel and sw2: return
        if sw2 and sw2 - sw1 > 8: return     # 2nd pre-emption within 8 steps
    else:
        # thorough: all exit moments, exit codes {0, 3, -9}; the second
        # pre-emption within 12 steps of the first (4 with two cancellers).
        # (The unrestricted product - any two of 40 points x 4 codes x two
        # cancellers - took 58 k CPU seconds for this harness alone.)
        if code > 2: return
        if sw2 and sw2 - sw1 > (4 if two_cancel else 12): return
    sw  = _switches(sw1, sw2, M1)
    ebp, first = conc(ebp, 0, 4), conc(first, 0, 1)
    code = CODES[conc(code, 0, 3)]
    env = X.Env(ebp, code)
    ex  = X.mk_popen(env, 'none', watch_iters=3)
    t   = X.mk_xtask('t0')
    C.run_sequential(X.CORO['work'](ex, [t]))          # launched
    check('proc' in t and 't0' in ex._tasks, 'setup: task not launched')
    threads = [('control', X.CORO['_control_cb'](ex, 'ctl',
                                                 X.cancel_msg(['t0']))),
               ('watcher', X.CORO['_watch'](ex))]
    if two_cancel:
        threads.insert(1, ('timeout', X.CORO['cancel_task'](ex, t)))
    if first:
        threads = threads[1:] + threads[:1]
    sch = C.Coop(threads, switch_at=sw)
    sch.run()
    _finish(ex, env)
    reach()
    trace('schedule', sch.log)
    s = X.check_exactly_once(ex, 't0')
    check(not env.flags, 'process misuse: %s', env.flags)
    check('t0' not in ex._tasks, 'task left behind in _tasks')
    if s['handover_stageout']:
        ec, tgt, _, _ = s['handover_stageout'][0]
        if tgt == rps.DONE:
            check(ec == 0, 'DONE with exit code %s', ec)
        if tgt == rps.FAILED:
            check(ec is not None and ec != 0, 'FAILED with exit code %s', ec)
        if ebp == 0:
            check(tgt == rps.CANCELED, 'process did not exit on its own before '
                  'the cancel but outcome is %s', tgt)
        if tgt != rps.CANCELED:
            check(ec == code, 'exit code %s reported, process returned %s',
                  ec, code)


M2 = 60


@obligation(params={'sw1': (0, M2), 'sw2': (0, M2), 'ebp': (0, 3),
                    'code': (0, 1), 'cancel': (0, 2), 'fault': (0, 5)},
            shapes={'quick': [{'B': 1}], 'thorough': [{'B': 2}]},
            partition={'quick': ('sw1', 31), 'thorough': ('sw1', 61)},
            timeout={'quick': 300, 'thorough': 3000},
            funcs=FUNCS,
            bounds='one task arrives at work(); threads: component thread '
                   '(work -> _handle_task -> _launch_task), control thread '
                   '(cancel for this task / for another task / none), watcher '
                   '(3 iterations); <= B pre-emptions within the first 60 '
                   'yield points (the second within 6 steps of the first); launch fault point in {none, no launcher, '
                   'exec script, launch script, open launch.out, spawn}; '
                   'process exit before poll 1..3 or only when killed; exit '
                   'code {0, 3}')
def h_launch_vs_cancel(sw1, sw2, ebp, code, cancel, fault, B=2):
    """intake/launch racing with a cancel request and the watcher"""
    if B < 2 and sw2: return
    if sw2 and sw2 < sw1: return
    if sw2 and sw2 - sw1 > 6: return       # 2nd pre-emption within 6 steps
    if fault and (ebp or code): return     # no process: exit is irrelevant
    sw  = _switches(sw1, sw2, M2)
    ebp, cancel, fault = conc(ebp, 0, 3), conc(cancel, 0, 2), conc(fault, 0, 5)
    code = CODES[conc(code, 0, 1)]
    env = X.Env(ebp, code)
    ex  = X.mk_popen(env, X.FAULTS[fault], watch_iters=3)
    t   = X.mk_xtask('t0')
    threads = [('main', X.CORO['work'](ex, [t])),
               ('watcher', X.CORO['_watch'](ex))]
    if cancel:
        uid = 't0' if cancel == 1 else 'other'
        threads.insert(1, ('control', X.CORO['_control_cb'](
                                          ex, 'ctl', X.cancel_msg([uid]))))
    sch = C.Coop(threads, switch_at=sw)
    sch.run()
    _finish(ex, env)
    reach()
    trace('schedule', sch.log)
    s = X.check_exactly_once(ex, 't0')
    check(not env.flags, 'process misuse: %s', env.flags)
    if fault:
        check(s['final_adv'] == [rps.FAILED], 'launch fault %s: outcome %s / '
              '%s', X.FAULTS[fault], s['final_adv'], s['handover_stageout'])
    else:
        check(len(s['handover_stageout']) == 1, 'launched task not handed to '
              'output staging: %s', s)
        tgt = s['handover_stageout'][0][1]
        if cancel != 1:
            check(tgt != rps.CANCELED, 'CANCELED without a cancel request for '
                  'this task')
        check('t0' not in ex._tasks, 'task left behind in _tasks')


# ------------------------------------------------------------------------------
@obligation(params={'sw1': (0, M2), 'which': (0, 1), 'fault': (1, 3),
                    'ebp': (0, 3), 'code': (0, 1)},
            partition={'quick': ('sw1', 31), 'thorough': ('sw1', 61)},
            timeout={'quick': 300, 'thorough': 900},
            funcs=FUNCS,
            bounds='a bulk of two tasks arrives at work(); the launch of the '
                   'first or of the second one fails (no launcher / exec '
                   'script / launch script), the other one runs (exit before '
                   'poll 1..3 or never, exit code 0 / 3); watcher thread with '
                   '<= 1 pre-emption')
def h_bulk_launch_fault(sw1, which, fault, ebp, code):
    """a launch failure concerns the failing task only: its sibling of the
    same bulk is handed on and released exactly once, as usual"""
    sw  = _switches(sw1, 0, M2)
    which, fault, ebp = conc(which, 0, 1), conc(fault, 1, 3), conc(ebp, 0, 3)
    code = CODES[conc(code, 0, 1)]
    env = X.Env(ebp, code)
    bad, good = ('t0', 't1') if which == 0 else ('t1', 't0')
    ex  = X.mk_popen(env, X.FAULTS[fault], watch_iters=3, fault_uid=bad)
    bulk = [X.mk_xtask('t0'), X.mk_xtask('t1')]
    sch = C.Coop([('main', X.CORO['work'](ex, bulk)),
                  ('watcher', X.CORO['_watch'](ex))], switch_at=sw)
    sch.run()
    _finish(ex, env)
    reach()
    trace('schedule', sch.log, 'events', ex.events)
    sb = X.check_exactly_once(ex, bad)
    sg = X.check_exactly_once(ex, good)
    check(sb['final_adv'] == [rps.FAILED], 'task %s whose launch failed: '
          'outcome %s', bad, sb['final_adv'])
    check(len(sg['handover_stageout']) == 1, 'sibling %s of the failed task '
          'not handed to output staging exactly once: %s', good, sg)
    check(sg['handover_stageout'][0][1] != rps.CANCELED, 'sibling CANCELED')
    # (the task whose launch failed stays registered in _tasks without a
    # process: cancel_task ignores such an entry - a leak, not a second finish)
    check(good not in ex._tasks, 'sibling left behind in _tasks')


# ------------------------------------------------------------------------------
# NOOP executor: intake (work) vs. collector thread (_collect)
#
import radical.pilot.agent.executing.noop as m_noop               # noqa: E402

NOOP_NAMES  = ['work', '_handle_task', '_collect']
NOOP_SHARED = ['self._tasks', "task['deadline']", '.publish(', '.advance(',
               'advance_tasks', 'to_finish', 'to_continue']
NCORO, NCORO_INFO = C.make_coros(m_noop.NOOP, NOOP_NAMES, NOOP_SHARED)


def mk_noop(collect_iters):
    ex = object.__new__(m_noop.NOOP)
    ex._uid, ex._log, ex._prof = 'agent_executing.0000', X.Null(), X.Null()
    ex._tasks      = list()
    ex._tasks_lock = C.CoopLock('_tasks_lock')
    ex._terminate  = X.CountdownEvent(collect_iters)
    ex._delay      = 1.0
    ex.events      = []
    def _publish(channel, msg, **kw):
        if channel == rpc.AGENT_UNSCHEDULE_PUBSUB:
            ex.events.append(('unschedule',
                              [t['uid'] for t in X.ru.as_list(msg)]))
    def _advance(things, state=None, publish=True, push=False, **kw):
        for t in X.ru.as_list(things):
            if state: t['state'] = state
            ex.events.append(('advance', t['uid'], state, push,
                              t.get('exit_code'), t.get('target_state'),
                              'proc' in t))
    ex.publish, ex.advance = _publish, _advance
    m_noop.time = X.FakeTimeMod()
    return ex


def mk_ntask(uid, ok=True):
    t = X.mk_xtask(uid)
    t['description']['executable'] = '/bin/true' if ok else None
    t['description']['arguments']  = []
    return t


@obligation(params={'sw1': (0, 30), 'sw2': (0, 30), 'bad': (0, 2),
                    'n': (1, 2), 'pre': 'bool'},
            partition={'quick': ('sw1', 16), 'thorough': ('sw1', 31)},
            timeout={'quick': 300, 'thorough': 900},
            funcs=['radical/pilot/agent/executing/noop.py:NOOP.' + n
                   for n in NOOP_NAMES],
            bounds='NOOP executor: a bulk of 1..2 tasks arrives while the '
                   'collector thread runs (3 iterations, <= 2 pre-emptions); '
                   'optionally one task is already being watched; task `bad` '
                   '(2 = none) cannot be handled (no executable)',
            stubs=['publish/advance -> recorders', 'time -> fake',
                   'lock -> cooperative'])
def h_noop(sw1, sw2, bad, n, pre):
    """NOOP executor: every accepted task is handed on and released once"""
    if sw2 and sw2 < sw1: return
    sw = _switches(sw1, sw2, 30)
    bad, n = conc(bad, 0, 2), conc(n, 1, 2)
    ex = mk_noop(3)
    tasks = [mk_ntask('t%d' % i, ok=(i != bad)) for i in range(n)]
    uids  = [t['uid'] for t in tasks]
    if pre:
        tp = mk_ntask('tp')
        C.run_sequential(NCORO['work'](ex, [tp]))
        uids.append('tp')
    sch = C.Coop([('main', NCORO['work'](ex, tasks)),
                  ('collector', NCORO['_collect'](ex))], switch_at=sw)
    sch.run()
    # the collector keeps running
    ex._terminate = X.CountdownEvent(2)
    C.run_sequential(NCORO['_collect'](ex))
    reach()
    trace('events', ex.events, 'schedule', sch.log)
    for uid in uids:
        s = X.check_exactly_once(ex, uid)
        if uid == 't%d' % bad:
            check(s['final_adv'] == [rps.FAILED], 'unhandled task %s: %s',
                  uid, s)
        else:
            check(len(s['handover_stageout']) == 1 and
                  s['handover_stageout'][0][1] == rps.DONE,
                  'task %s: %s', uid, s)
    check(not ex._tasks, 'tasks left behind: %s',
          [t['uid'] for t in ex._tasks])
