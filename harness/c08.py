"""
C08 - cancel stops the named tasks and nothing else.

Three places a cancel request can meet a task on the pilot:
  intake    BaseComponent._control_cb + work_cb (real)
  scheduler the scheduler loop of C04 with cancel events (real, sliced loop)
  executor  the Popen coroutines of C07 with a named task and a bystander
In each, the run is repeated without the cancel request and the bystander's
observable outcome must be identical.
"""

import radical.pilot.states as rps
import radical.pilot.constants as rpc

from vfw.api import obligation, check, reach, trace, real, conc
from vfw import coro as C
from harness import comp as K
from harness import execu as X
from harness import sched as S
import harness.c04 as c04
import harness.c07 as c07

META = {
    'explanation':
        'Bounded symbolic execution (CrossHair+z3) of the real cancel paths: '
        '(1) component intake (_control_cb registers the uid, work_cb filters '
        'it through is_canceled); (2) the sliced scheduler loop of C04 driven '
        'with arrivals, a cancel request at a symbolic position and '
        'completions; (3) the Popen coroutines of C07 with two tasks under a '
        'symbolic schedule.  Every run is executed twice - with and without '
        'the cancel request - and the bystander task must end up with the same '
        'reports, placement and hand-over; the named task is CANCELED exactly '
        'once unless it had already finished, and its resources are released '
        'exactly once.'}


# ------------------------------------------------------------------------------
@obligation(params={'n': (1, 3), 'named': (0, 2), 'before': 'bool',
                    'dup': 'bool', 'wfail': 'bool'},
            timeout={'quick': 200, 'thorough': 400},
            funcs=['radical/pilot/utils/component.py:BaseComponent._control_cb',
                   'radical/pilot/utils/component.py:BaseComponent.work_cb',
                   'radical/pilot/utils/component.py:BaseComponent.is_canceled'],
            bounds='bulk of 1..3 tasks arriving at a component; cancel request '
                   'naming task 0/1/2 (once or twice) before the bulk arrives, '
                   'or after it was processed; the worker optionally raises',
            stubs=['input queue -> in-memory', 'advance -> recorder'])
def h_intake(n, named, before, dup, wfail):
    """a named task met at intake is canceled there, bystanders are worked on"""
    n, named = conc(n, 1, 3), conc(named, 0, 2)
    seen = []
    def worker(things):
        seen.extend(t['uid'] for t in things)
        if wfail:
            raise RuntimeError('worker failed')
    st = rps.AGENT_STAGING_INPUT_PENDING
    c  = K.mk_component(st, worker)
    tasks = [{'uid': 't%d' % i, 'type': 'task', 'state': st} for i in range(n)]
    msg   = {'cmd': 'cancel_tasks', 'arg': {'uids': ['t%d' % named]}}
    if before:
        real(c._control_cb, rpc.CONTROL_PUBSUB, msg)
        if dup: real(c._control_cb, rpc.CONTROL_PUBSUB, msg)
    c.inq.bulks.append(tasks)
    check(real(c.work_cb) is True, 'work_cb unregistered itself')
    if not before:
        real(c._control_cb, rpc.CONTROL_PUBSUB, msg)
    reach()
    uid = 't%d' % named
    for t in tasks:
        rep = [s for u, s, _ in c.advanced if u == t['uid']]
        if t['uid'] == uid and before:
            check(uid not in seen, 'canceled task was passed to the worker')
            check(rep == [rps.CANCELED], 'named task reports %s', rep)
        else:
            check(t['uid'] in seen, 'bystander %s not worked on', t['uid'])
            check(rps.CANCELED not in rep, 'bystander %s CANCELED', t['uid'])
            check(rep == ([rps.FAILED] if wfail else []), 'bystander %s '
                  'reports %s', t['uid'], rep)


# ------------------------------------------------------------------------------
def _sched_run(evs, nsh, cancel_pos, cancel_idx):
    w = c04.World(1, 4)
    for i, ev in enumerate(evs):
        if i == cancel_pos:
            if not w.cancel(cancel_idx):
                return None
            w.settle()
        if not c04.apply_event(w, ev, nsh):
            return None
        w.settle()
    if cancel_pos == len(evs):
        if not w.cancel(cancel_idx):
            return None
    w.settle()
    return w


E2 = [0, 9, 1, 7, 10, 3, 5]     # third event: none / completion / arrivals


@obligation(params={'e01': (0, 63), 'e2': (0, 6), 'pos': (1, 3),
                    'idx': (0, 2)},
            shapes={'quick': [{'_ranges': {'e2': (0, 3)}}], 'thorough': [{}]},
            partition={'quick': ('e01', 16), 'thorough': ('e01', 32)},
            timeout={'quick': 300, 'thorough': 900},
            funcs=c04.FUNCS,
            bounds='1 node x 4 cores; two arrivals (shapes 1x1 1x2 2x2 3x2, '
                   'priority 0 or 1) then a third event (none / completion / '
                   'one of 3 arrivals; thorough 2 more); a cancel request for task 0, 1 or 2 after '
                   'event 1, 2 or 3; the same history is run without the '
                   'request',
            stubs=['see C04'])
def h_sched_cancel(e01, e2, pos, idx):
    """scheduler: named waiting task is canceled once, bystander unaffected"""
    nsh = 4
    e01 = conc(e01, 0, 63)
    evs = [1 + e01 // 8, 1 + e01 % 8, E2[conc(e2, 0, 6)]]
    pos, idx = conc(pos, 1, 3), conc(idx, 0, 2)
    if idx >= pos: return                      # task must have arrived
    # third event: 0 none, 1..4 arrival prio 0, 5..8 arrival prio 1, 9/10 completion
    w1 = _sched_run(evs, nsh, pos, idx)
    if w1 is None: return
    w0 = _sched_run(evs, nsh, 99, idx)
    if w0 is None: return
    reach()
    uid  = 't%d' % idx
    rep1 = w1.reports(uid)
    rep0 = w0.reports(uid)
    was_waiting = False
    # named task: canceled iff it was waiting when the request arrived
    check(rep1['canceled'] <= 1, 'named task canceled %s times',
          rep1['canceled'])
    if pos == len(evs) and rep0['started'] == 0 and rep0['failed'] == 0:
        # it was still waiting when the (last) request came: must be canceled
        check(rep1['canceled'] == 1 and not w1.waiting(uid), 'named task %s '
              'was waiting at the request but is not canceled: %s waiting=%s',
              uid, rep1, w1.waiting(uid))
    if rep1['canceled']:
        check(w1.waiting(uid) == 0, 'canceled task still in the wait pool')
        check(rep1['started'] == 0, 'canceled task was also started')
    # bystanders: same reports / same placement as without the request, or
    # better (they may start earlier because the named task left)
    for other, t in w1.tasks.items():
        if other == uid or other not in w0.tasks: continue
        r1, r0 = w1.reports(other), w0.reports(other)
        check(r1['canceled'] == 0, 'bystander %s CANCELED', other)
        check(r1['failed'] == r0['failed'], 'bystander %s failed=%s, without '
              'the request %s', other, r1['failed'], r0['failed'])
        check(r1['started'] >= r0['started'], 'bystander %s not started (%s) '
              'but started without the request', other, r1)
        check(r1['started'] + r1['failed'] + w1.waiting(other) == 1,
              'bystander %s lost: %s waiting=%s', other, r1, w1.waiting(other))
    # a running named task keeps its resources until the executor releases
    if rep1['started'] and uid in w1.running:
        held = sum(len(s['cores']) for s in w1.tasks[uid]['slots'])
        busy = sum(1 for c in w1.nodes[0]['cores'] if c == S.BUSY)
        check(busy >= held, 'cancel of a running task freed its cores in the '
              'scheduler map')
    w1.quiescent_checks()


# ------------------------------------------------------------------------------
def _exec_run(sw, ebp, code, with_cancel, named_first, uids=('ta',)):
    env = X.Env(ebp, code)
    ex  = X.mk_popen(env, 'none', watch_iters=3)
    ta, tb = X.mk_xtask('ta'), X.mk_xtask('tb')
    order  = [ta, tb] if named_first else [tb, ta]
    C.run_sequential(X.CORO['work'](ex, order))
    threads = [('watcher', X.CORO['_watch'](ex))]
    if with_cancel:
        threads.insert(0, ('control', X.CORO['_control_cb'](
                                          ex, 'ctl', X.cancel_msg(uids))))
    sch = C.Coop(threads, switch_at=sw)
    env.sched = sch
    sch.run()
    env.sched = None
    c07._finish(ex, env)
    return ex, env, ta


UIDS = [('ta',), ('zz', 'ta'), ('ta', 'zz'), ('zz', 'ta', 'yy')]


@obligation(params={'sw1': (0, 44), 'sw2': (0, 44), 'ebp': (0, 4),
                    'named_first': 'bool', 'code': (0, 1), 'req': (0, 3)},
            shapes={'quick': [{'B': 1}], 'thorough': [{'B': 2}]},
            partition={'quick': ('sw1', 23), 'thorough': ('sw1', 45)},
            timeout={'quick': 300, 'thorough': 1800},
            funcs=c07.FUNCS,
            bounds='two launched tasks (named ta, bystander tb); cancel request '
                   'naming ta alone or together with uids unknown to this '
                   'executor (before / after / around it) racing with the '
                   'watcher; exit code 0 / 3; <= B pre-emptions (the second within '
                   '6 steps of the first); '
                   'processes exit before the k-th poll() overall (k=1..4) or '
                   'only when killed; the run is repeated without the request',
            stubs=['see C07'])
def h_exec_cancel(sw1, sw2, ebp, named_first, code, req, B=2):
    """executor: named task killed and released once, bystander untouched"""
    if B < 2 and sw2: return
    if sw2 and sw2 < sw1: return
    if B < 2 and req > 1 and sw1 > 20: return      # quick: keep it small
    # thorough: second pre-emption within 6 steps, then only the plain and the
    # "unknown uid first" request forms
    if sw2 and (sw2 - sw1 > 6 or req > 1): return
    sw  = c07._switches(sw1, sw2, 44)
    ebp, code, req = conc(ebp, 0, 4), [0, 3][conc(code, 0, 1)], conc(req, 0, 3)
    ex1, env1, ta = _exec_run(sw, ebp, code, True,  named_first, UIDS[req])
    ex0, env0, _  = _exec_run([], ebp, code, False, named_first)
    reach()
    sa = X.check_exactly_once(ex1, 'ta')
    sb = X.check_exactly_once(ex1, 'tb')
    s0 = X.summarize(ex0, 'tb')
    check(not env1.flags, 'process misuse: %s', env1.flags)
    # named task: CANCELED unless its process had already finished
    tgt = sa['handover_stageout'][0][1] if sa['handover_stageout'] else None
    check(tgt in (rps.CANCELED, rps.DONE, rps.FAILED), 'named task outcome %s',
          tgt)
    if ebp == 0:
        check(tgt == rps.CANCELED, 'named task still running at the request '
              'but ends %s', tgt)
    # ... unless it had already finished when the request was handled: the
    # first look the control thread took at the named process
    pa = [p for p in env1.procs.values() if p.pid == 4001 + (0 if named_first
                                                             else 1)]
    first = [e for e in env1.poll_log if e[0] == 'control' and pa
             and e[1] == pa[0].pid]
    if first and first[0][2]:
        check(tgt == (rps.DONE if code == 0 else rps.FAILED), 'named task '
              'had already exited with %s when the request was handled but '
              'ends %s', code, tgt)
    # bystander: never canceled, never killed; same outcome as without cancel
    tb_t = sb['handover_stageout'][0][1] if sb['handover_stageout'] else None
    check(tb_t != rps.CANCELED, 'bystander ended CANCELED')
    tbp = [p for p in env1.procs.values()]
    check(sum(1 for p in tbp if p.killed) <= 1, 'more than the named process '
          'was killed')
    check(len(sb['handover_stageout']) == len(s0['handover_stageout']) and
          sb['final_adv'] == s0['final_adv'], 'bystander hand-over differs: %s '
          'vs %s without the request', sb, s0)
    check('ta' not in ex1._tasks and 'tb' not in ex1._tasks, 'task left behind')


# ------------------------------------------------------------------------------
@obligation(params={'sw1': (0, c07.M2), 'cancel_first': 'bool'},
            partition={'quick': ('sw1', 31), 'thorough': ('sw1', 61)},
            timeout={'quick': 300, 'thorough': 900},
            funcs=c07.FUNCS,
            bounds='one task arrives at the executor; a cancel request for it '
                   'is handled by the control thread before, during (one '
                   'pre-emption at any of the first 60 yield points) or after '
                   'the launch; the process does not exit on its own',
            stubs=['see C07'])
def h_exec_cancel_during_launch(sw1, cancel_first):
    """a cancel arriving while the task is being launched is still enacted"""
    sw  = c07._switches(sw1, 0, c07.M2)
    env = X.Env(0, 0)
    ex  = X.mk_popen(env, 'none', watch_iters=3)
    t   = X.mk_xtask('t0')
    threads = [('main', X.CORO['work'](ex, [t])),
               ('control', X.CORO['_control_cb'](ex, 'ctl',
                                                 X.cancel_msg(['t0']))),
               ('watcher', X.CORO['_watch'](ex))]
    if cancel_first:
        threads = [threads[1], threads[0], threads[2]]
    sch = C.Coop(threads, switch_at=sw)
    sch.run()
    # the process is still alive unless it was killed
    alive = [p for p in env.procs.values() if not p.exited and not p.killed]
    c07._finish(ex, env)
    reach()
    s = X.check_exactly_once(ex, 't0')
    tgt = s['handover_stageout'][0][1] if s['handover_stageout'] else None
    check(not alive and tgt == rps.CANCELED, 'cancel request during launch '
          'was not enacted: process alive=%s, outcome %s', bool(alive), tgt)


# ------------------------------------------------------------------------------
# requests which wait in the agent scheduler's raptor backlog (their master has
# not registered its queue yet): cancel stops the named ones and only them
#
import harness.c20 as c20                                           # noqa: E402
import harness.sched as HS                                          # noqa: E402
import radical.pilot.agent.scheduler.base as m_sbase                # noqa: E402


@obligation(params={'n': (1, 4), 'mask': (0, 15), 'star': (0, 15),
                    'unknown': 'bool'},
            partition={'quick': ('mask', 16), 'thorough': ('mask', 16)},
            timeout={'quick': 300, 'thorough': 600},
            funcs=['radical/pilot/agent/scheduler/base.py:'
                   'AgentSchedulingComponent.control_cb',
                   'radical/pilot/agent/scheduler/base.py:'
                   'AgentSchedulingComponent._schedule_incoming'],
            bounds='1..4 function requests wait in the raptor backlog (each for '
                   'master m0 or for any master, by bit mask); one cancel '
                   'request names any subset of them (optionally also an '
                   'unknown uid); then m0 registers its queue',
            stubs=['ru.zmq.Putter -> recorder', 'advance -> recorder'])
def h_raptor_backlog_cancel(n, mask, star, unknown):
    """named backlog requests are CANCELED once and never relayed; the others
    are relayed once and not canceled"""
    n, mask, star = conc(n, 1, 4), conc(mask, 0, 15), conc(star, 0, 15)
    if mask >> n or star >> n: return
    nodes = HS.mk_nodes([[rpc.FREE] * 4], [[]], 0, 0)
    s = HS.mk_sched(nodes, 4, 0)
    puts = []
    old = m_sbase.ru
    class RU(object):
        def __getattr__(self, k): return getattr(old, k)
        class zmq(object):
            @staticmethod
            def Putter(queue, addr): return c20.RQ(queue, puts)
    m_sbase.ru = RU()
    try:
        bulk = []
        for i in range(n):
            rid = '*' if (star >> i) & 1 else 'm0'
            bulk.append(HS.mk_task('t%d' % i, raptor_id=rid,
                                   mode='task.function'))
        s._queue_sched.put((bulk, s._SCHEDULE))
        real(s._schedule_incoming)
        named = ['t%d' % i for i in range(n) if (mask >> i) & 1]
        uids  = (['nobody'] if unknown else []) + named
        real(s.control_cb, 'control', {'cmd': 'cancel_tasks',
                                       'arg': {'uids': uids}})
        # the scheduler process sees the request as well
        real(s._schedule_incoming)
        real(s.control_cb, 'control', {'cmd': 'register_raptor_queue',
             'arg': {'name': 'm0', 'queue': 'm0', 'addr': 'a'}})
    finally:
        m_sbase.ru = old
    reach()
    trace('named', named, 'puts', puts, 'advanced', s.advanced)
    for i in range(n):
        uid = 't%d' % i
        canc = [a for a in s.advanced if a[0] == uid and a[1] == rps.CANCELED]
        rel  = [q for q, u in puts if u == uid]
        if uid in named:
            check(len(canc) == 1, 'named request %s reported CANCELED %s '
                  'times', uid, len(canc))
            check(not rel, 'named request %s relayed to raptor %s after the '
                  'cancel', uid, rel)
        else:
            check(not canc, 'bystander request %s was canceled', uid)
            check(len(rel) == 1, 'bystander request %s relayed %s times', uid,
                  len(rel))
