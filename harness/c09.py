"""
C09 - launch commands enact the placement they were given.

Real code: <LM>.get_launch_cmds / can_launch (Fork, SSH, RSH, MPIRun incl.
_MPT/_RSH/_CCMRUN, MPIExec incl. rank file / host file / PALS, Srun, APRun,
CCMRun, IBRun), MPIExec._get_rank_file/_get_host_file, ru.create_hostfile,
ResourceManager.find_launcher.  Instances are built with object.__new__ and
the real init_from_info(lm_info).  Files are written to an in-memory store.
Readers (oracles) extract only what the launchers' documented option syntax
defines: process count and the hosts / cores named.
"""

import collections

import radical.utils as ru
import radical.pilot.agent.launch_method.base    as m_lmb
import radical.pilot.agent.launch_method.fork    as m_fork
import radical.pilot.agent.launch_method.ssh     as m_ssh
import radical.pilot.agent.launch_method.rsh     as m_rsh
import radical.pilot.agent.launch_method.mpirun  as m_mpirun
import radical.pilot.agent.launch_method.mpiexec as m_mpiexec
import radical.pilot.agent.launch_method.srun    as m_srun
import radical.pilot.agent.launch_method.aprun   as m_aprun
import radical.pilot.agent.launch_method.ccmrun  as m_ccmrun
import radical.pilot.agent.launch_method.ibrun   as m_ibrun
import radical.pilot.agent.resource_manager.base as m_rmb

from vfw.api import obligation, check, reach, trace, conc, Null

META = {
    'explanation':
        'Bounded symbolic execution (CrossHair+z3) of the real launch methods: '
        'the placement (1..3 ranks, node per rank over 3 nodes, core set per '
        'rank as a bit mask over 4 cores, GPUs per rank), the launcher and '
        'its flavour flags are solver variables.  A reader per launcher '
        'extracts process count and the hosts / pinned cores from the command '
        'and any host/rank/node file it references; they must equal the '
        'placement.  Every command is generated twice - on a fresh instance '
        'and on an instance that already produced the command of another '
        'symbolic task - and must be identical (history independence); '
        'can_launch()/find_launcher() must refuse what the method cannot '
        'start.',
    'assumes': ['launcher option syntax as documented (mpirun -np/-host/'
                '-hostfile, MPT host list with -np per host, mpiexec -np/-rf/'
                '-f/--hostfile, srun --ntasks/--nodes/--nodelist/--nodefile, '
                'aprun/ccmrun -n, ibrun -n)',
                'ibrun offset (-o) semantics, JSRUN/ERF, PRTE, Flux and Dragon '
                'are outside the claim']}

NODES = ['node0', 'node1', 'node2']
EXEC  = '/sbox/t0/t0.exec.sh'


class Store(object):
    def __init__(self): self.files = {}


class FakeFile(object):
    def __init__(self, store, name): self.store, self.name = store, name
    def __enter__(self): return self
    def __exit__(self, *a): return False
    def write(self, data):
        self.store.files[self.name] = self.store.files.get(self.name, '') + data


class FakeRU(object):
    def __init__(self, store): self.store = store
    def ru_open(self, name, mode='r', **kw):
        if 'w' in mode:
            self.store.files[name] = ''          # open(.., 'w') truncates
        return FakeFile(self.store, name)
    def create_hostfile(self, *a, **k):
        g = ru.create_hostfile.__globals__
        saved = g['ru_open']
        g['ru_open'] = self.ru_open
        try:
            return ru.create_hostfile(*a, **k)
        finally:
            g['ru_open'] = saved
    def __getattr__(self, k): return getattr(ru, k)


class FakeLMPath(object):
    def __init__(self, store): self.store = store
    def isfile(self, p): return p in self.store.files
    def exists(self, p): return p in self.store.files
    def __getattr__(self, k):
        import os
        return getattr(os.path, k)


class FakeLMOS(object):
    """`os` of a launch method module: the file system is the in-memory store"""
    def __init__(self, store): self.path = FakeLMPath(store)
    def __getattr__(self, k):
        import os
        return getattr(os, k)


class RMI(dict):
    def __getattr__(self, k): return self[k]


def mk_rm_info():
    return RMI(cores_per_node=4, gpus_per_node=2, threads_per_core=1,
               requested_gpus=2, details={'exact': False},
               node_list=[{'name': n, 'index': i} for i, n in enumerate(NODES)])


def mk_task(uid, placement, cpr_mask_list, gpus, use_mpi=None):
    slots = []
    for ni, cm in zip(placement, cpr_mask_list):
        cores = [i for i in range(4) if (cm >> i) & 1]
        slots.append({'node_name': NODES[ni], 'node_index': ni,
                      'cores': [{'index': c, 'occupation': 1.0} for c in cores],
                      'gpus': [{'index': g, 'occupation': 1.0}
                               for g in range(gpus)],
                      'lfs': 0, 'mem': 0})
    ranks = len(slots)
    cpr   = len(slots[0]['cores']) if slots else 1
    return {'uid': uid, 'slots': slots, 'task_sandbox_path': '/sbox/%s' % uid,
            'description': {'executable': '/bin/true', 'ranks': ranks,
                            'cores_per_rank': cpr, 'gpus_per_rank': gpus,
                            'use_mpi': (ranks > 1) if use_mpi is None
                                       else use_mpi,
                            'mem_per_rank': 0, 'metadata': {}}}


# launcher table: name -> (module, class, lm_info)
def _lm(kind, flags, store):
    base = {'env': {}, 'env_sh': 'env/lm.sh'}
    rmi  = mk_rm_info()
    if kind == 'FORK':
        mod, cls, info, name = m_fork, m_fork.Fork, base, 'FORK'
    elif kind == 'SSH':
        mod, cls, name = m_ssh, m_ssh.SSH, 'SSH'
        info = dict(base, command='/usr/bin/ssh -o StrictHostKeyChecking=no')
    elif kind == 'RSH':
        mod, cls, name = m_rsh, m_rsh.RSH, 'RSH'
        info = dict(base, command='/usr/bin/rsh')
    elif kind == 'MPIRUN':
        mod, cls = m_mpirun, m_mpirun.MPIRun
        name = ['MPIRUN', 'MPIRUN_MPT', 'MPIRUN_RSH', 'MPIRUN_CCMRUN'][flags % 4]
        info = dict(base, command='/usr/bin/mpirun', mpt=(flags % 4 == 1),
                    rsh=(flags % 4 == 2),
                    ccmrun='/usr/bin/ccmrun' if flags % 4 == 3 else '',
                    dplace='', omplace='', mpi_version='4.0',
                    mpi_flavor='OMPI')
    elif kind == 'MPIEXEC':
        mod, cls, name = m_mpiexec, m_mpiexec.MPIExec, 'MPIEXEC'
        flav = ['OMPI', 'HYDRA', 'PALS', 'OMPI'][flags % 4]
        info = dict(base, command='/usr/bin/mpiexec', mpt=False, omplace='',
                    mpi_version='4.0', mpi_flavor=flav, rsh=False,
                    dplace='', ccmrun='',
                    use_rf=(flags % 4 == 3), use_hf=(flags % 4 == 1),
                    can_os=False)
    elif kind == 'SRUN':
        mod, cls, name = m_srun, m_srun.Srun, 'SRUN'
        info = dict(base, command='/usr/bin/srun', version='20.11.8', vmajor=20)
    elif kind == 'APRUN':
        mod, cls, name = m_aprun, m_aprun.APRun, 'APRUN'
        info = dict(base, command='/usr/bin/aprun')
    elif kind == 'CCMRUN':
        mod, cls, name = m_ccmrun, m_ccmrun.CCMRun, 'CCMRUN'
        info = dict(base, command='/usr/bin/ccmrun')
    else:
        mod, cls, name = m_ibrun, m_ibrun.IBRun, 'IBRUN'
        info = dict(base, command='/usr/bin/ibrun')
    lm = object.__new__(cls)
    lm.name     = name
    lm._name    = name
    lm._log     = Null()
    lm._prof    = Null()
    lm._lm_cfg  = {'options': {}, 'resource': 'local.localhost'}
    lm._rm_info = rmi
    lm._pwd     = '/pilot'
    if kind == 'FORK':
        lm.node_name = 'node0'
    if kind == 'SRUN':
        lm._traverse, lm._exact = False, False
    lm.init_from_info(dict(info))
    if hasattr(mod, 'ru'):
        mod.ru = FakeRU(store)
    if hasattr(mod, 'os'):
        mod.os = FakeLMOS(store)
    return lm


KINDS = ['FORK', 'SSH', 'RSH', 'MPIRUN', 'MPIEXEC', 'SRUN', 'APRUN', 'CCMRUN',
         'IBRUN']


# ------------------------------------------------------------------------------
# readers
#
def _opt(tokens, names):
    for i, t in enumerate(tokens):
        for n in names:
            if t == n and i + 1 < len(tokens):
                return tokens[i + 1]
            if t.startswith(n + '='):
                return t[len(n) + 1:]
    return None


def read_cmd(kind, lm, cmd, files):
    """-> dict(procs=int, hosts=list|None (per rank) , hostset=set|None,
               cores=list|None (per rank))"""
    tok = cmd.split()
    out = {'procs': None, 'hosts': None, 'hostset': None, 'cores': None,
           'cpus_per_task': None, 'offset': None}
    if kind == 'FORK':
        check(cmd == EXEC, 'fork command %r', cmd)
        out.update(procs=1, hosts=[lm.node_name])
    elif kind in ('SSH', 'RSH'):
        check(tok[-1] == EXEC, 'command does not end in the exec script')
        out.update(procs=1, hosts=[tok[-2]])
    elif kind == 'MPIRUN':
        n = int(_opt(tok, ['-np']))
        hosts = None
        h = _opt(tok, ['-host'])
        f = _opt(tok, ['-hostfile', '-file'])
        if h: hosts = h.split(',')
        if f:
            check(f in files, 'host file %s not written', f)
            hosts = files[f].split()
        if lm._mpt and not f:
            # MPT: mpirun <host list> -np <procs per host entry>
            idx = tok.index(lm._command) + 1
            hosts = tok[idx].split(',')
        if lm._mpt:
            out.update(procs=n * len(hosts), hosts=hosts)
        else:
            out.update(procs=n, hosts=hosts)
    elif kind == 'MPIEXEC':
        n  = int(_opt(tok, ['-np']))
        rf = _opt(tok, ['-rf'])
        hf = _opt(tok, ['-f', '--hostfile'])
        out['procs'] = n
        if rf:
            check(rf in files, 'rank file not written')
            hosts, cores = [], []
            for i, line in enumerate(files[rf].strip().split('\n')):
                p = line.split()
                check(p[0] == 'rank' and p[1].startswith('%d=' % i),
                      'rank file line %r', line)
                hosts.append(p[1].split('=')[1])
                cores.append([int(c) for c in p[2].split('=')[1].split(',')])
            out.update(hosts=hosts, cores=cores)
        elif hf:
            check(hf in files, 'host file not written')
            cnt = collections.OrderedDict()
            plain = True
            for line in files[hf].strip().split('\n'):
                if ' slots=' in line:
                    h, c = line.split(' slots='); cnt[h] = int(c); plain = False
                elif ':' in line:
                    h, c = line.split(':'); cnt[h] = int(c); plain = False
                else:
                    cnt[line.strip()] = None
            if plain:
                out['hostset'] = set(cnt)
            else:
                out['hosts'] = [h for h, c in cnt.items() for _ in range(c)]
    elif kind == 'SRUN':
        n  = int(_opt(tok, ['--ntasks']))
        nn = int(_opt(tok, ['--nodes']))
        nl = _opt(tok, ['--nodelist'])
        nf = _opt(tok, ['--nodefile'])
        hs = None
        if nl: hs = set(nl.split(','))
        if nf:
            check(nf in files, 'node file not written')
            hs = set(files[nf].strip().split(','))
        check(hs is None or nn == len(hs), '--nodes %s but %s hosts named',
              nn, hs)
        cpt = _opt(tok, ['--cpus-per-task'])
        out.update(procs=n, hostset=hs,
                   cpus_per_task=int(cpt) if cpt else None)
    elif kind in ('APRUN', 'CCMRUN', 'IBRUN'):
        out['procs'] = int(_opt(tok, ['-n']))
        if kind == 'IBRUN':
            out['offset'] = int(_opt(tok, ['-o']))
            out['tpn'] = int([t for t in tok if t.startswith(
                              'IBRUN_TASKS_PER_NODE=')][0].split('=')[1])
    check(tok[-1] == EXEC, 'command %r does not run the exec script', cmd)
    return out


def verify(kind, lm, task, cmd, files):
    r     = read_cmd(kind, lm, cmd, files)
    slots = task['slots']
    want  = [s['node_name'] for s in slots]
    check(r['procs'] == len(slots), '%s starts %s processes for %s ranks: %s',
          kind, r['procs'], len(slots), cmd)
    if r['hosts'] is not None:
        check(sorted(r['hosts']) == sorted(want), '%s names hosts %s, '
              'placement is %s: %s', kind, r['hosts'], want, cmd)
    if r['hostset'] is not None:
        check(r['hostset'] == set(want), '%s names hosts %s, placement nodes '
              'are %s: %s', kind, sorted(r['hostset']), sorted(set(want)), cmd)
    if r['cores'] is not None:
        for i, s in enumerate(slots):
            check(r['hosts'][i] == s['node_name'] and
                  r['cores'][i] == [c['index'] for c in s['cores']],
                  '%s pins rank %s to %s:%s, placement says %s:%s', kind, i,
                  r['hosts'][i], r['cores'][i], s['node_name'],
                  [c['index'] for c in s['cores']])
    if r['offset'] is not None:
        # ibrun -o: task slot at which the first rank starts, counted over the
        # pilot's node list: slots of the nodes before the first placement
        # node plus the slot of the lowest core used on that node
        first = min(s['node_index'] for s in slots)
        cpr   = task['description']['cores_per_rank']
        cmin  = min(s['cores'][0]['index'] for s in slots
                    if s['node_index'] == first)
        want_o = first * r['tpn'] + cmin // cpr
        check(r['offset'] == want_o, 'ibrun offset -o %s, the placement starts '
              'at slot %s (node %s, core %s, %s slots per node): %s',
              r['offset'], want_o, first, cmin, r['tpn'], cmd)
    if r['cpus_per_task'] is not None:
        check(r['cpus_per_task'] == task['description']['cores_per_rank'],
              '%s --cpus-per-task %s, cores per rank %s', kind,
              r['cpus_per_task'], task['description']['cores_per_rank'])


def _placement(ranks, p):
    # node index per rank from a base-3 code
    out = []
    for _ in range(ranks):
        out.append(p % 3)
        p //= 3
    return out


_LM_FUNCS = ['radical/pilot/agent/launch_method/%s.py:%s.get_launch_cmds'
             % (m, c) for m, c in
             (('fork', 'Fork'), ('ssh', 'SSH'), ('rsh', 'RSH'),
              ('mpirun', 'MPIRun'), ('mpiexec', 'MPIExec'),
              ('srun', 'Srun'), ('aprun', 'APRun'), ('ccmrun', 'CCMRun'),
              ('ibrun', 'IBRun'))] + \
            ['radical/pilot/agent/launch_method/mpiexec.py:'
             'MPIExec._get_rank_file',
             'radical/pilot/agent/launch_method/mpiexec.py:'
             'MPIExec._get_host_file']

# (kind, flags) combinations
KF = [(k, 0) for k in range(9)] + [(3, 1), (3, 2), (3, 3),
                                   (4, 1), (4, 2), (4, 3)]


def _gen(kind, flags, tb, store):
    lm = _lm(kind, flags, store)
    ok, why = lm.can_launch(tb)
    ranks = len(tb['slots'])
    if not ok:
        # refusal: must be one the method cannot start
        if kind == 'FORK':
            check(ranks > 1 or tb['slots'][0]['node_name'] != 'node0'
                  or tb['description']['use_mpi'], 'fork refused a local '
                  'single rank task: %s', why)
        elif kind in ('SSH', 'RSH'):
            check(ranks > 1, '%s refused a single rank task: %s', kind, why)
        else:
            check(False, '%s refused the task: %s' % (kind, why))
        return lm, None
    try:
        return lm, lm.get_launch_cmds(tb, EXEC)
    except (RuntimeError, ValueError, AssertionError, TypeError) as e:
        trace('refused', repr(e))
        return lm, None              # refusal instead of a command


@obligation(params={'kf': (0, 14), 'ranks': (1, 3), 'pl': (0, 26),
                    'cm': (1, 15), 'gpus': (0, 1)},
            shapes={'quick': [{'small': True}], 'thorough': [{'small': False}]},
            partition={'quick': ('kf', 15), 'thorough': ('kf', 15)},
            timeout={'quick': 300, 'thorough': 3000},
            funcs=_LM_FUNCS,
            bounds='9 launch methods + flavours (mpirun: plain/MPT/RSH/CCMRUN; '
                   'mpiexec: hostfile/-f/PALS/rank file); 1..3 ranks, node per '
                   'rank over 3 nodes (all 39 assignments), core mask over 4 '
                   'cores (same for all ranks; quick: 4 masks), 0..1 GPUs',
            stubs=['ru.ru_open / ru.create_hostfile -> in-memory files',
                   'launcher instances via object.__new__ + init_from_info'])
def h_launch(kf, ranks, pl, cm, gpus, small=False):
    """the command starts |ranks| processes on exactly the placement's nodes"""
    if small and cm not in (1, 3, 6, 15): return
    kf, ranks = conc(kf, 0, 14), conc(ranks, 1, 3)
    pl, cm, gpus = conc(pl, 0, 26), conc(cm, 1, 15), conc(gpus, 0, 1)
    if pl >= 3 ** ranks: return
    kind, flags = KINDS[KF[kf][0]], KF[kf][1]
    tb = mk_task('t0', _placement(ranks, pl), [cm] * ranks, gpus)
    st = Store()
    lm, cmd = _gen(kind, flags, tb, st)
    if cmd is None:
        return
    reach()
    trace(kind, flags, 'placement', [s['node_name'] for s in tb['slots']],
          'cmd', cmd, 'files', st.files)
    verify(kind, lm, tb, cmd, st.files)
    if kind == 'FORK':
        check(ranks == 1 and tb['slots'][0]['node_name'] in
              ('localhost', 'node0'), 'fork accepted a task it cannot place')


TASKS = [(1, 0, 1), (1, 1, 3), (2, 5, 1), (3, 21, 6), (2, 0, 15), (3, 13, 1)]


@obligation(params={'kf': (0, 14), 'a': (0, 5), 'b': (0, 5), 'twice': 'bool'},
            partition={'quick': ('kf', 15), 'thorough': ('kf', 15)},
            timeout={'quick': 300, 'thorough': 900},
            funcs=_LM_FUNCS,
            bounds='9 launch methods + flavours; tasks A and B from 6 '
                   'representative placements (1..3 ranks, different nodes and '
                   'core sets); B\'s command on a fresh instance vs. on an '
                   'instance that generated A\'s command before (once or '
                   'twice)')
def h_history(kf, a, b, twice):
    """generating commands for other tasks before does not change a command"""
    kf, a, b = conc(kf, 0, 14), conc(a, 0, 5), conc(b, 0, 5)
    kind, flags = KINDS[KF[kf][0]], KF[kf][1]
    ra, pa, ca = TASKS[a]
    rb, pb, cb = TASKS[b]
    tb = mk_task('t0', _placement(rb, pb), [cb] * rb, 0)
    ta = mk_task('tA', _placement(ra, pa), [ca] * ra, 0)
    st1 = Store()
    lm1, cmd1 = _gen(kind, flags, tb, st1)
    if cmd1 is None:
        return
    st2 = Store()
    lm2 = _lm(kind, flags, st2)
    for _ in range(2 if twice else 1):
        try:
            if lm2.can_launch(ta)[0]:
                lm2.get_launch_cmds(ta, '/sbox/tA/tA.exec.sh')
        except (RuntimeError, ValueError, AssertionError, TypeError):
            pass
    cmd2 = lm2.get_launch_cmds(tb, EXEC)
    reach()
    check(cmd2 == cmd1, '%s: command for the same task differs after another '
          'task: %r vs %r', kind, cmd2, cmd1)
    fb1 = {f: c for f, c in st1.files.items() if '/t0' in f}
    fb2 = {f: c for f, c in st2.files.items() if '/t0' in f}
    check(fb1 == fb2, '%s: files for the same task differ after another task: '
          '%s vs %s', kind, fb2, fb1)


# ------------------------------------------------------------------------------
@obligation(params={'k': (3, 5), 'flags': (0, 3), 'ranks': (41, 44),
                    'stride': (1, 2)},
            timeout={'quick': 300, 'thorough': 600},
            funcs=['radical/pilot/agent/launch_method/mpirun.py:'
                   'MPIRun.get_launch_cmds',
                   'radical/pilot/agent/launch_method/srun.py:'
                   'Srun.get_launch_cmds'],
            bounds='mpirun (4 flavours), mpiexec, srun with 41..44 ranks (the '
                   'literal host-list / node-list thresholds are 42) placed '
                   'round robin over 3 nodes (stride 1 or 2)')
def h_many_ranks(k, flags, ranks, stride):
    """host list vs host file threshold: the same placement is named"""
    k, flags, ranks, stride = conc(k, 3, 5), conc(flags, 0, 3), \
                              conc(ranks, 41, 44), conc(stride, 1, 2)
    kind = KINDS[k]
    if kind == 'SRUN' and flags: return
    st = Store()
    lm = _lm(kind, flags, st)
    t  = mk_task('t0', [(i * stride) % 3 for i in range(ranks)], [1] * ranks, 0)
    try:
        cmd = lm.get_launch_cmds(t, EXEC)
    except (RuntimeError, ValueError, AssertionError, TypeError):
        return
    reach()
    verify(kind, lm, t, cmd, st.files)


# ------------------------------------------------------------------------------
@obligation(params={'node': (0, 2), 'ranks': (1, 2), 'mpi': 'bool',
                    'order': (0, 1), 'local': (0, 2), 'prev': (0, 6)},
            partition={'quick': ('prev', 7), 'thorough': ('prev', 7)},
            timeout={'quick': 200, 'thorough': 400},
            funcs=['radical/pilot/agent/resource_manager/base.py:'
                   'ResourceManager.find_launcher',
                   'radical/pilot/agent/launch_method/fork.py:Fork.can_launch',
                   'radical/pilot/agent/launch_method/ssh.py:SSH.can_launch'],
            bounds='launch order [FORK, SSH, MPIRUN] or [SSH, FORK, MPIRUN]; '
                   'the executor runs on node0/node1/"node" (a name that is a '
                   'prefix of the others); 1..2 ranks on node 0..2, MPI flag; '
                   'asked on a fresh resource manager or after a launcher was '
                   'selected for another task (1 rank on node 0..2, or 2 MPI '
                   'ranks on node 0..2)')
def h_find_launcher(node, ranks, mpi, order, local, prev):
    """the selected launcher can enact the placement, whatever was asked
    before"""
    node, ranks, order, local = conc(node, 0, 2), conc(ranks, 1, 2), \
                                conc(order, 0, 1), conc(local, 0, 2)
    prev = conc(prev, 0, 6)
    st  = Store()
    fk  = _lm('FORK', 0, st)
    fk.node_name = ['node0', 'node1', 'node01'][local]
    lms = {'FORK': fk, 'SSH': _lm('SSH', 0, st), 'MPIRUN': _lm('MPIRUN', 0, st)}
    rm  = object.__new__(m_rmb.ResourceManager)
    rm._log = Null()
    rm._launchers    = lms
    rm._launch_order = [['FORK', 'SSH', 'MPIRUN'],
                        ['SSH', 'FORK', 'MPIRUN']][order]
    if prev:
        pn, pr = (prev - 1) % 3, 1 + (prev - 1) // 3
        tp = mk_task('tp', [pn] * pr, [1] * pr, 0, use_mpi=pr > 1)
        rm.find_launcher(tp)
    t = mk_task('t0', [node] * ranks, [1] * ranks, 0, use_mpi=mpi or ranks > 1)
    lm, name = rm.find_launcher(t)
    if prev:
        # history independence: a fresh resource manager decides the same
        rm2 = object.__new__(m_rmb.ResourceManager)
        rm2._log, rm2._launchers = Null(), lms
        rm2._launch_order = list(rm._launch_order)
        lm2, name2 = rm2.find_launcher(
            mk_task('t0', [node] * ranks, [1] * ranks, 0,
                    use_mpi=mpi or ranks > 1))
        check(name == name2, 'launcher %s selected after another task, %s on '
              'a fresh resource manager', name, name2)
    if lm is None:
        return
    reach()
    cmd = lm.get_launch_cmds(t, EXEC)
    verify(name, lm, t, cmd, st.files)
    if name == 'FORK':
        check(t['slots'][0]['node_name'] == fk.node_name and ranks == 1,
              'FORK selected for a task on %s (executor runs on %s)',
              t['slots'][0]['node_name'], fk.node_name)


# ------------------------------------------------------------------------------
NODES_MANY = ['n%03d' % i for i in range(50)]


@obligation(params={'n': (41, 45), 'shift': (0, 3), 'same_uid': 'bool',
                    'cm0': (1, 15), 'cm1': (1, 15)},
            shapes={'quick': [{'_ranges': {'cm0': (1, 3), 'cm1': (1, 3)}}],
                    'thorough': [{}]},
            partition={'quick': ('n', 5), 'thorough': ('cm0', 15)},
            timeout={'quick': 300, 'thorough': 900},
            funcs=['radical/pilot/agent/launch_method/srun.py:'
                   'Srun.get_launch_cmds',
                   'radical/pilot/agent/launch_method/ibrun.py:'
                   'IBRun.get_launch_cmds'],
            bounds='srun with 41..45 ranks on as many distinct nodes (the '
                   'node-list / node-file threshold is 42), generated after a '
                   'command for a placement shifted by 0..3 nodes, for another '
                   'task or for the same task uid (re-generation); ibrun with 2 '
                   'ranks on 2 consecutive nodes with symbolic core masks')
def h_many_nodes(n, shift, same_uid, cm0, cm1):
    """node file contents follow the placement of the command at hand"""
    n, shift = conc(n, 41, 45), conc(shift, 0, 3)
    cm0, cm1 = conc(cm0, 1, 15), conc(cm1, 1, 15)
    def task(uid, first):
        slots = [{'node_name': NODES_MANY[first + i], 'node_index': first + i,
                  'cores': [{'index': 0, 'occupation': 1.0}], 'gpus': [],
                  'lfs': 0, 'mem': 0} for i in range(n)]
        return {'uid': uid, 'slots': slots, 'task_sandbox_path': '/sbox/t0',
                'description': {'executable': '/bin/true', 'ranks': n,
                                'cores_per_rank': 1, 'gpus_per_rank': 0,
                                'use_mpi': True, 'mem_per_rank': 0,
                                'metadata': {}}}
    st = Store()
    lm = _lm('SRUN', 0, st)
    ta = task('t0' if same_uid else 'tA', shift)
    lm.get_launch_cmds(ta, '/sbox/t0/x.exec.sh')
    tb = task('t0', 0)
    cmd = lm.get_launch_cmds(tb, EXEC)
    reach()
    r = read_cmd('SRUN', lm, cmd, st.files)
    check(r['procs'] == n, 'srun starts %s processes for %s ranks', r['procs'],
          n)
    check(r['hostset'] == set(NODES_MANY[:n]), 'srun names %s nodes, %s of '
          'them outside the placement, %s of the placement missing',
          len(r['hostset'] or []),
          len((r['hostset'] or set()) - set(NODES_MANY[:n])),
          len(set(NODES_MANY[:n]) - (r['hostset'] or set())))
    # ibrun: two ranks on consecutive nodes, arbitrary first cores
    st2 = Store()
    ib  = _lm('IBRUN', 0, st2)
    t2  = mk_task('t0', [1, 2], [cm0, cm1], 0)
    t2['description']['cores_per_rank'] = 1
    for s_, cm in zip(t2['slots'], (cm0, cm1)):
        s_['cores'] = s_['cores'][:1]
    cmd2 = ib.get_launch_cmds(t2, EXEC)
    verify('IBRUN', ib, t2, cmd2, st2.files)
