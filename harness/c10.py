"""
C10 - the generated task scripts run what the user described (Python side).

Q1  quoting:   LaunchMethod.get_exec / _create_arg_string / ru.sh_quote on
               symbolic argument strings, read back by a POSIX double-quote
               word reader.
Q2  structure: AgentExecutingComponent._create_exec_script pieces
               (_get_rp_env, _get_rank_ids, _get_task_env, _extend_pre_exec,
               _get_prep_exec, _get_exec) and _create_launch_script pieces
               (_get_launch, _get_prep_launch) with a symbolic description
               shape; the text is executed by a reader for exactly the line
               forms these functions emit.
Q3  stdout/stderr placement: Popen._handle_task prologue.
bash itself is outside the claim (trusted base: the stated reader).
"""

import os

import radical.utils as ru
import radical.pilot.constants as rpc
import radical.pilot.agent.executing.base  as m_xb
import radical.pilot.agent.executing.popen as m_popen
import radical.pilot.agent.launch_method.base as m_lmb
import radical.pilot.agent.launch_method.fork as m_fork
import radical.pilot.agent.launch_method.mpirun as m_mpirun

from vfw.api import obligation, check, reach, trace, real, conc, Null

META = {
    'explanation':
        'Bounded symbolic execution (CrossHair+z3) of the real script '
        'construction code.  Q1: argument strings over a 10 character '
        'alphabet (space, quotes, backslash, glob characters, non-ASCII, '
        'empty) up to length 3 (thorough 4) are quoted by the real '
        'get_exec/_create_arg_string/ru.sh_quote and read back by a POSIX '
        'word reader: the argument list must be unchanged.  Q2: the exec and '
        'launch script text produced for a symbolic description shape '
        '(pre/post_exec entries global or per rank, ranks, GPU assignment, '
        'threading/GPU type, failing command, exit code, environment) is '
        'executed by a line-level reader: RP_* variables, ordering of '
        'pre_exec / executable / post_exec, per-rank commands, failure '
        'propagation and exit code are checked.  Q3: stdout/stderr file names.',
    'assumes': ['bash semantics are those of the stated reader: export/unset, '
                '`cmd || rp_error sig`, case "$RP_RANK" in N) ... ;; esac, '
                '`cmd &` / wait / RP_RET=$?, exit $RP_RET, `test -z "$V" || '
                'export K=$V`; an unreadable line is a harness error, not a '
                'violation',
                '`$` and backquote do not occur in arguments (documented: '
                'sh_quote does not neutralise them)']}

# ------------------------------------------------------------------------------
# Q1
#
ALPHA = ['a', ' ', "'", '"', '\\', '*', '?', '\u00e9', ';', '-']


def posix_words(s):
    """split a command line the way a POSIX shell does for the quoting forms
    used here (double quotes with backslash escapes of \\ " $ `)"""
    words, cur, i, inword = [], '', 0, False
    while i < len(s):
        c = s[i]
        if c == '"':
            inword = True
            i += 1
            while True:
                if i >= len(s):
                    raise ValueError('unterminated quote')
                d = s[i]
                if d == '"':
                    i += 1
                    break
                if d == '\\' and i + 1 < len(s) and s[i + 1] in '\\"$`\n':
                    cur += s[i + 1]
                    i += 2
                    continue
                cur += d
                i += 1
        elif c == ' ':
            if inword:
                words.append(cur)
                cur, inword = '', False
            i += 1
        elif c == '\\':
            cur += s[i + 1]
            inword = True
            i += 2
        else:
            cur += c
            inword = True
            i += 1
    if inword:
        words.append(cur)
    return words


def mk_fork():
    lm = object.__new__(m_fork.Fork)
    lm.name, lm._log, lm._prof = 'FORK', Null(), Null()
    lm.node_name = 'localhost'
    lm.init_from_info({'env': {}, 'env_sh': 'env/lm_fork.sh'})
    return lm


@obligation(params={'n': (0, 3), 'c0': (0, 9), 'c1': (0, 9), 'c2': (0, 9),
                    'c3': (0, 9), 'second': (0, 2)},
            shapes={'quick': [{'nmax': 3}], 'thorough': [{'nmax': 4}]},
            partition={'quick': ('c0', 10), 'thorough': ('c0', 10)},
            timeout={'quick': 300, 'thorough': 3000},
            funcs=['radical/pilot/agent/launch_method/base.py:'
                   'LaunchMethod.get_exec',
                   'radical/pilot/agent/launch_method/base.py:'
                   'LaunchMethod._create_arg_string'],
            bounds='first argument: string of length 0..3 (thorough 0..4) over '
                   "{a, space, ', \", backslash, *, ?, e-acute, ;, -}; "
                   'optionally followed by a second argument (plain word or '
                   'empty string)',
            stubs=['none'])
def h_quote(n, c0, c1, c2, c3, second, nmax=3):
    """the executable receives exactly the described argument list"""
    if n > nmax: return
    n = conc(n, 0, 4) if nmax >= 4 else conc(n, 0, 3)
    raw = [c0, c1, c2, c3]
    for i in range(n, 4):
        if raw[i] != 0: return                         # canonical form
    cs = [conc(raw[i], 0, 9) for i in range(n)]
    second = conc(second, 0, 2)
    arg  = ''.join(ALPHA[c] for c in cs[:n])
    args = [arg] + ([['x y'], ['']][second - 1] if second else [])
    lm   = mk_fork()
    cmd  = real(lm.get_exec, {'description': {'executable': '/bin/prog',
                                              'arguments': list(args)}})
    reach()
    got = posix_words(cmd)
    check(got == ['/bin/prog'] + args, 'arguments %r are run as %r (command '
          'line %r)', args, got[1:], cmd)


# ------------------------------------------------------------------------------
# Q2 reader
#
class ScriptError(Exception):
    pass


def run_script(text, env, fail, exe_code):
    """execute the generated script text.  `fail`: set of atoms which return
    non-zero; returns (exit_code, ran) with ran the list of atoms / EXE run"""
    ran   = []
    env   = dict(env)
    lines = text.split('\n')
    i     = 0
    ret   = {'RP_RET': None, 'last': 0}
    in_case, case_match, case_done = False, False, False

    def expand(v):
        v = v.strip()
        if v.startswith('"') and v.endswith('"'):
            v = v[1:-1]
        if v.startswith('$') and v[1:].replace('_', 'a').isalnum():
            return env.get(v[1:], '')
        return v                      # literal text (not expanded further)

    def run_cmd(cmd):
        cmd = cmd.strip()
        if cmd.startswith('ATOM_') or cmd.startswith('export OMP_NUM_THREADS') \
           or cmd.startswith('export CUDA_VISIBLE_DEVICES'):
            if cmd.startswith('export '):
                k, v = cmd[7:].split('=', 1)
                env[k] = v
                ran.append(cmd)
                return 0
            ran.append(cmd)
            return 1 if cmd in fail else 0
        raise ScriptError('unreadable command %r' % cmd)

    while i < len(lines):
        line = lines[i].rstrip()
        s    = line.strip()
        i   += 1
        if not s or s.startswith('#'):
            continue
        if in_case:
            if s == 'esac':
                in_case = False
                continue
            if s.endswith(')') and s[:-1].isdigit():
                case_match = (env.get('RP_RANK') == s[:-1]) and not case_done
                continue
            if s == ';;':
                if case_match: case_done = True
                case_match = False
                continue
            if not case_match:
                continue
        if s.startswith('case "$RP_RANK" in'):
            in_case, case_match, case_done = True, False, False
            continue
        if s.endswith('() {'):
            while lines[i].rstrip() != '}':
                i += 1
            i += 1
            continue
        if s.startswith('$RP_PROF') or s.startswith('ls | sort') \
           or s.startswith('. ') or s.startswith('rp_sync_ranks') \
           or s == 'cd $RP_TASK_SANDBOX':
            continue
        if s.startswith('test "$RP_RANK" == "0" && '):
            # A && B [|| rp_error sig]: rp_error runs when A or B fails
            rest = s[len('test "$RP_RANK" == "0" && '):]
            err  = None
            if ' || rp_error ' in rest:
                rest, err = rest.rsplit(' || rp_error ', 1)
            ok = env.get('RP_RANK') == '0'
            if ok:
                if rest.startswith('$RP_CTRL ') or rest.startswith('$RP_PROF'):
                    ran.append('CTRL ' + rest.split()[2]
                               if rest.startswith('$RP_CTRL') else 'PROF')
                else:
                    ok = run_cmd(rest) == 0
            if not ok and err is not None:
                return 1, ran, env
            continue
        if s.startswith('test -z "$') and '|| export ' in s:
            var = s[len('test -z "$'):s.index('"', 10)]
            k, v = s.split('|| export ')[1].split('=', 1)
            if env.get(var):
                env[k] = expand(v)
            continue
        if ' || rp_error ' in s:
            cmd, sig = s.rsplit(' || rp_error ', 1)
            if run_cmd(cmd) != 0:
                return 1, ran, env          # rp_error: exit 1
            continue
        if s.startswith('export '):
            k, v = s[7:].split('=', 1)
            env[k] = expand(v)
            continue
        if s.startswith('unset '):
            env.pop(s.split()[1], None)
            continue
        if s.endswith(' &'):
            ran.append('EXE ' + s[:-2])
            ret['last'] = exe_code
            continue
        if s in ('RP_EXEC_PID=$$', 'RP_RANK_PID=$!', 'RP_LAUNCH_PID=$$'):
            continue
        if s.startswith('wait $RP_RANK_PID'):
            continue
        if s == 'RP_RET=$?':
            ret['RP_RET'] = ret['last']
            continue
        if s == 'exit $RP_RET':
            if ret['RP_RET'] is None:
                raise ScriptError('exit $RP_RET before RP_RET is set')
            return ret['RP_RET'], ran, env
        if s == '( \\':
            # launch block: ( cmd \ ) 1> out \ 2> err
            cmd = lines[i].strip().rstrip('\\').strip(); i += 1
            red = lines[i].strip(); i += 1
            err = lines[i].strip(); i += 1
            if not (red.startswith(') 1> ') and err.startswith('2> ')):
                raise ScriptError('unreadable launch block')
            ran.append('LAUNCH %s' % cmd)
            env['__stdout'] = red[5:].rstrip('\\').strip()
            env['__stderr'] = err[3:].strip()
            ret['last'] = exe_code
            continue
        raise ScriptError('unreadable line %r' % line)
    raise ScriptError('script ends without exit')


class Reg(dict):
    def __getitem__(self, k):
        if k == 'bridges.control_pubsub':
            return {'addr_pub': 'tcp://pub:1', 'addr_sub': 'tcp://sub:2'}
        return None


class RCfg(dict):
    pass


class Sess(object):
    reg_addr = 'tcp://reg:0'
    def __init__(self): self.rcfg = RCfg()


def mk_exec_component():
    c = object.__new__(m_popen.Popen)
    c._uid, c._log = 'agent_executing.0000', Null()
    c._prof = Null()
    c._prof.enabled = False
    c._pwd  = '/pilot'
    c.sid, c.pid, c.resource = 'session.0', 'pilot.0000', 'local.localhost'
    c.rsbox, c.ssbox, c.psbox = '/rs', '$RP_RESOURCE_SANDBOX/$RP_SESSION_ID/', \
                                '$RP_SESSION_SANDBOX/pilot.0000'
    c.gtod, c.prof, c.rp_ctrl = '$RP_PILOT_SANDBOX/gtod', \
                                '$RP_PILOT_SANDBOX/prof', '/bin/rp-control'
    c._reg     = Reg()
    c._session = Sess()
    c._header    = '#!/bin/sh\n'
    c._separator = '\n# ' + '-' * 78 + '\n'
    return c


def mk_mpirun():
    lm = object.__new__(m_mpirun.MPIRun)
    lm.name, lm._log, lm._prof = 'MPIRUN', Null(), Null()
    lm.init_from_info({'env': {}, 'env_sh': 'env/lm.sh', 'command': 'mpirun',
                       'mpt': False, 'rsh': False, 'ccmrun': '', 'dplace': '',
                       'omplace': '', 'mpi_version': '4', 'mpi_flavor': 'OMPI'})
    return lm


def build_exec_text(c, launcher, task):
    """the same sequence _create_exec_script assembles (its file I/O aside)"""
    td      = task['description']
    n_ranks = td['ranks']
    slots   = task.setdefault('slots', {})
    c._extend_pre_exec(td, slots)
    tmp  = ''
    tmp += c._header
    tmp += c._separator
    tmp += c._get_rp_env(task)
    tmp += c._get_rp_funcs()
    tmp += c._separator
    tmp += c._get_rank_ids(n_ranks, launcher)
    tmp += c._separator
    tmp += c._get_prof('exec_start')
    tmp += c._get_task_env(task, launcher)
    tmp += c._separator
    tmp += c._get_prof('exec_pre')
    tmp += c._get_prep_exec(task, n_ranks, sig='pre_exec')
    tmp += c._separator
    tmp += c._get_prof('rank_start')
    tmp += c._get_exec(task, launcher)
    tmp += c._get_prof('rank_stop', msg='RP_EXEC_PID=$RP_EXEC_PID:'
                                        'RP_RANK_PID=$RP_RANK_PID')
    tmp += c._separator
    tmp += c._get_prof('exec_post')
    tmp += c._get_prep_exec(task, n_ranks, sig='post_exec')
    tmp += c._separator
    tmp += c._get_prof('exec_stop')
    tmp += 'exit $RP_RET\n'
    return tmp


class _CapOS(object):
    O_WRONLY = O_CREAT = O_TRUNC = 0
    path = os.path
    def __init__(self, written): self.written = written
    def open(self, path=None, mode=None, flags=None): return 7
    def write(self, fh, data): self.written['data'] = data.decode()
    def close(self, fh): pass
    def __getattr__(self, k): return getattr(os, k)


class _CapRU(object):
    def rec_makedir(self, p): pass
    def __getattr__(self, k): return getattr(ru, k)


def real_exec_text(c, launcher, task):
    """the text the real _create_exec_script writes (os.write captured)"""
    written = {}
    saved = (m_xb.os, m_xb.ru)
    m_xb.os, m_xb.ru = _CapOS(written), _CapRU()
    try:
        c._create_exec_script(launcher, task)
    finally:
        m_xb.os, m_xb.ru = saved
    return written['data']


def _validate_assembly():
    """the assembly above is the one _create_exec_script performs: compare on
    a concrete task with the real method writing through a captured os.write"""
    c  = mk_exec_component()
    lm = mk_fork()
    def mk():
        return {'uid': 't0', 'task_sandbox_path': '/pilot/t0', 'slots': [],
                'description': {'ranks': 1, 'cores_per_rank': 1,
                                'gpus_per_rank': 0, 'threading_type': '',
                                'gpu_type': '', 'pre_exec': ['ATOM_a'],
                                'post_exec': ['ATOM_b'], 'pre_exec_sync': False,
                                'named_env': '', 'environment': {'K': 'v'},
                                'executable': '/bin/x', 'arguments': ['1'],
                                'startup_timeout': 0}}
    written = {}
    class FOS(object):
        O_WRONLY = O_CREAT = O_TRUNC = 0
        path = os.path
        def open(self, path=None, mode=None, flags=None): return 7
        def write(self, fh, data): written['data'] = data.decode()
        def close(self, fh): pass
        def __getattr__(self, k): return getattr(os, k)
    class FRU(object):
        def rec_makedir(self, p): pass
        def __getattr__(self, k): return getattr(ru, k)
    saved = (m_xb.os, m_xb.ru)
    m_xb.os, m_xb.ru = FOS(), FRU()
    try:
        c._create_exec_script(lm, mk())
    finally:
        m_xb.os, m_xb.ru = saved
    real_text = written['data']
    mine = build_exec_text(c, lm, mk())
    def norm(t):
        return [l for l in t.split('\n')
                if l.strip() and not l.startswith('#') and 'ls | sort' not in l]
    if norm(real_text) != norm(mine):
        raise RuntimeError('exec script assembly in the harness differs from '
                           '_create_exec_script')
    return True


ASSEMBLY_OK = _validate_assembly()


@obligation(params={'ranks': (1, 3), 'rank': (0, 2), 'pp': (0, 11),
                    'fail': (0, 4), 'code': (0, 255),
                    'gpu': (0, 2), 'misc': (0, 7)},
            partition={'quick': ('pp', 12), 'thorough': ('pp', 12)},
            shapes={'quick': [{'small': True}], 'thorough': [{'small': False}]},
            timeout={'quick': 300, 'thorough': 1800},
            funcs=['radical/pilot/agent/executing/base.py:'
                   'AgentExecutingComponent.' + n for n in
                   ('_get_rp_env', '_get_rank_ids', '_get_task_env',
                    '_extend_pre_exec', '_get_prep_exec', '_get_exec',
                    '_get_rp_funcs', '_create_exec_script')],
            bounds='1..3 ranks, evaluating rank 0..2; pre_exec: none / one '
                   'global atom / global + per-rank dict {0:a,1:b} / per-rank '
                   'dict with a list for rank 0; post_exec: none / global / '
                   'per-rank; failing atom: none / pre global / pre rank 0 / '
                   'pre rank 1 / post; executable exit code symbolic 0..255; '
                   'GPUs per rank 0..2 with CUDA (quick 0..1); one of: OpenMP '
                   'threading / task environment / task name / named env + '
                   'environment / site task_pre_exec / site task_pre_exec '
                   'after another task used the same component / start-up '
                   'time-out (start-up notification line) / none',
            stubs=['os.open/os.write of _create_exec_script -> captured text',
                   'registry -> constants'])
def h_exec_script(ranks, rank, pp, fail, code, gpu, misc, small=False):
    """the exec script runs pre_exec, executable, post_exec as described"""
    if rank >= ranks: return
    if small and gpu == 2: return
    # quick: the description variants are not multiplied with every fault
    if small and misc != 0 and fail > 1: return
    if small and misc != 0 and gpu and pp > 2: return
    pp, misc = conc(pp, 0, 11), conc(misc, 0, 7)
    pre, post = pp // 3, pp % 3
    omp, env, name = misc == 1, misc in (2, 4), misc == 3
    nenv, site, prev = misc == 4, misc in (5, 6), misc == 6
    ranks, rank = conc(ranks, 1, 3), conc(rank, 0, 2)
    fail, gpu = conc(fail, 0, 4), conc(gpu, 0, 2)
    c  = mk_exec_component()
    lm = mk_fork() if ranks == 1 else mk_mpirun()
    lm.get_task_named_env = lambda n: '/pilot/env/rp_named_env.%s.sh' % n
    if site:
        c._session.rcfg['task_pre_exec'] = ['ATOM_site']
    if prev:
        # another task went through the same component before
        ptd = {'ranks': 1, 'cores_per_rank': 1, 'gpus_per_rank': 0.0,
               'threading_type': '', 'gpu_type': '', 'pre_exec': ['ATOM_prev'],
               'post_exec': [], 'pre_exec_sync': False, 'named_env': '',
               'environment': {}, 'executable': '/bin/other', 'arguments': [],
               'startup_timeout': 0}
        real(real_exec_text, c, mk_fork(),
             {'uid': 'task.0006', 'task_sandbox_path': '/pilot/task.0006',
              'slots': [], 'description': ptd})
    pre_exec  = [[], ['ATOM_g'], ['ATOM_g', {'0': 'ATOM_r0', '1': 'ATOM_r1'}],
                 [{'0': ['ATOM_r0', 'ATOM_r0b'], '1': 'ATOM_r1'}]][pre]
    post_exec = [[], ['ATOM_p'], [{'0': 'ATOM_p0', '2': 'ATOM_p2'}]][post]
    failing   = [set(), {'ATOM_g'}, {'ATOM_r0'}, {'ATOM_r1'},
                 {'ATOM_p', 'ATOM_p0'}][fail]
    slots = [{'node_name': 'n0', 'node_index': 0,
              'cores': [{'index': r, 'occupation': 1.0}],
              'gpus': [{'index': r * 2 + g, 'occupation': 1.0}
                       for g in range(gpu)]} for r in range(ranks)]
    td = {'ranks': ranks, 'cores_per_rank': 2, 'gpus_per_rank': float(gpu),
          'threading_type': rpc.OpenMP if omp else '',
          'gpu_type': rpc.CUDA if gpu else '',
          'pre_exec': [dict(x) if isinstance(x, dict) else x for x in pre_exec],
          'post_exec': list(post_exec), 'pre_exec_sync': False,
          'named_env': 'env0' if nenv else '',
          'environment': {'MY_VAR': 'my value'} if env else {},
          'executable': '/bin/prog', 'arguments': ['arg1'],
          'startup_timeout': 5 if misc == 7 else 0}
    task = {'uid': 'task.0007', 'task_sandbox_path': '/pilot/task.0007',
            'slots': slots, 'description': td}
    if name: task['name'] = 'my_task'
    text = real(real_exec_text, c, lm, task)
    start_env = {'MPI_RANK': str(rank)} if ranks > 1 else {}
    try:
        rc, ran, envf = run_script(text, start_env, failing, code)
    except ScriptError as e:
        raise RuntimeError('reader cannot execute the script: %s' % e)
    reach()
    trace('ran', ran, 'rc', rc)
    # RP_* variables
    check(envf.get('RP_TASK_ID') == 'task.0007', 'RP_TASK_ID=%r',
          envf.get('RP_TASK_ID'))
    check(envf.get('RP_TASK_NAME') == ('my_task' if name else 'task.0007'),
          'RP_TASK_NAME=%r', envf.get('RP_TASK_NAME'))
    check(envf.get('RP_RANKS') == str(ranks), 'RP_RANKS=%r', envf.get('RP_RANKS'))
    check(envf.get('RP_RANK') == str(rank), 'RP_RANK=%r', envf.get('RP_RANK'))
    check(envf.get('RP_CORES_PER_RANK') == '2', 'RP_CORES_PER_RANK=%r',
          envf.get('RP_CORES_PER_RANK'))
    check(envf.get('RP_GPUS_PER_RANK') == str(gpu), 'RP_GPUS_PER_RANK=%r',
          envf.get('RP_GPUS_PER_RANK'))
    check(envf.get('RP_TASK_SANDBOX') == '$RP_PILOT_SANDBOX/task.0007',
          'RP_TASK_SANDBOX=%r', envf.get('RP_TASK_SANDBOX'))
    check(envf.get('RP_PILOT_ID') == 'pilot.0000' and
          envf.get('RP_SESSION_ID') == 'session.0', 'pilot/session id')
    check(envf.get('RP_CONTROL_PUB_ADDRESS') == 'tcp://pub:1',
          'RP_CONTROL_PUB_ADDRESS=%r', envf.get('RP_CONTROL_PUB_ADDRESS'))
    check(envf.get('RP_CONTROL_SUB_ADDRESS') == 'tcp://sub:2',
          'RP_CONTROL_SUB_ADDRESS=%r (the control pubsub is subscribed at '
          'tcp://sub:2)', envf.get('RP_CONTROL_SUB_ADDRESS'))
    if env:
        check(envf.get('MY_VAR') == 'my value', 'task environment MY_VAR=%r',
              envf.get('MY_VAR'))
    # expected atoms for this rank
    def mine(entries):
        out = []
        for e in entries:
            if isinstance(e, dict):
                out += ru.as_list(e.get(str(rank)) or [])
            else:
                out.append(e)
        return out
    exp_pre  = mine(pre_exec) + (['ATOM_site'] if site else [])
    exp_post = mine(post_exec)
    exe_pos  = [i for i, x in enumerate(ran) if x.startswith('EXE ')]
    atoms    = [x for x in ran if x.startswith('ATOM_')]
    pre_fail = next((a for a in exp_pre if a in failing), None)
    if pre_fail:
        check(not exe_pos, 'pre_exec %s failed but the executable ran', pre_fail)
        check(rc != 0, 'pre_exec failed but the script exits 0')
        check(atoms == exp_pre[:exp_pre.index(pre_fail) + 1], 'pre_exec ran %s, '
              'expected %s', atoms, exp_pre[:exp_pre.index(pre_fail) + 1])
        return
    check(len(exe_pos) == 1, 'executable ran %s times', len(exe_pos))
    check(ran[exe_pos[0]] == 'EXE /bin/prog "arg1"', 'executable line %r',
          ran[exe_pos[0]])
    before = [x for x in ran[:exe_pos[0]] if x.startswith('ATOM_')]
    after  = [x for x in ran[exe_pos[0] + 1:] if x.startswith('ATOM_')]
    check(before == exp_pre, 'rank %s ran pre_exec %s, described %s', rank,
          before, exp_pre)
    post_fail = next((a for a in exp_post if a in failing), None)
    if post_fail:
        check(rc != 0, 'post_exec failed but the script exits 0')
        check(after == exp_post[:exp_post.index(post_fail) + 1], 'post_exec '
              'ran %s', after)
    else:
        check(after == exp_post, 'rank %s ran post_exec %s, described %s',
              rank, after, exp_post)
        check(rc == code, 'script exits %s, executable returned %s', rc, code)
    if omp:
        check(envf.get('OMP_NUM_THREADS') == '2', 'OMP_NUM_THREADS=%r',
              envf.get('OMP_NUM_THREADS'))
    if gpu:
        want = ','.join(str(rank * 2 + g) for g in range(gpu))
        check(envf.get('CUDA_VISIBLE_DEVICES') == want, 'rank %s sees GPUs %r, '
              'placement says %s', rank, envf.get('CUDA_VISIBLE_DEVICES'), want)


# ------------------------------------------------------------------------------
@obligation(params={'so': (0, 2), 'se': (0, 2), 'code': (0, 255),
                    'prel': 'bool', 'fail_pre': 'bool'},
            timeout={'quick': 200, 'thorough': 400},
            funcs=['radical/pilot/agent/executing/popen.py:Popen._handle_task',
                   'radical/pilot/agent/executing/base.py:'
                   'AgentExecutingComponent._get_launch',
                   'radical/pilot/agent/executing/base.py:'
                   'AgentExecutingComponent._get_prep_launch'],
            bounds='stdout / stderr name: default / relative / absolute; launch '
                   'command exit code symbolic; optional pre_launch command '
                   'which may fail',
            stubs=['find_launcher / script writers / _launch_task -> stubs '
                   'recording their arguments'])
def h_stdio(so, se, code, prel, fail_pre):
    """stdout/stderr go to the described files; launch exit code is passed on"""
    so, se = conc(so, 0, 2), conc(se, 0, 2)
    names  = [None, 'my.out', '/abs/dir/my.out']
    enames = [None, 'my.err', '/abs/dir/my.err']
    c = mk_exec_component()
    lm = mk_fork()
    class RM(object):
        def find_launcher(self, task): return lm, 'FORK'
    c._rm = RM()
    got = {}
    c._create_exec_script   = lambda l, t: ('$RP_TASK_SANDBOX/x.exec.sh', '/f')
    def _cls(l, t, ep):
        got['launch'] = c._get_prep_launch(t, 'pre_launch') + \
                        c._get_launch(t, l, ep) + 'exit $RP_RET\n'
        return '$RP_TASK_SANDBOX/x.launch.sh', '/f'
    c._create_launch_script = _cls
    c._launch_task = lambda t: None
    td = {'stdout': names[so], 'stderr': enames[se], 'executable': '/bin/x',
          'arguments': [], 'pre_launch': ['ATOM_pl'] if prel else []}
    task = {'uid': 'task.0007', 'task_sandbox_path': '/pilot/task.0007',
            'description': td, 'slots': []}
    real(c._handle_task, task)
    reach()
    def want(n, dflt):
        n = n or dflt
        if n[0] == '/':
            return n, n
        return '/pilot/task.0007/' + n, '$RP_TASK_SANDBOX/' + n
    wo, wos = want(names[so],  'task.0007.out')
    we, wes = want(enames[se], 'task.0007.err')
    check(task['stdout_file'] == wo and task['stdout_file_short'] == wos,
          'stdout %r / %r, described %r', task['stdout_file'],
          task['stdout_file_short'], names[so])
    check(task['stderr_file'] == we and task['stderr_file_short'] == wes,
          'stderr %r / %r, described %r', task['stderr_file'],
          task['stderr_file_short'], enames[se])
    try:
        rc, ran, envf = run_script(got['launch'], {},
                                   {'ATOM_pl'} if fail_pre else set(), code)
    except ScriptError as e:
        raise RuntimeError('reader cannot execute the launch block: %s' % e)
    if prel and fail_pre:
        check(rc != 0 and not any(x.startswith('LAUNCH') for x in ran),
              'pre_launch failed but the task was launched (rc %s)', rc)
        return
    check(envf.get('__stdout') == wos and envf.get('__stderr') == wes,
          'launch redirects to %r / %r, expected %r / %r',
          envf.get('__stdout'), envf.get('__stderr'), wos, wes)
    check(rc == code, 'launch script exits %s, launch command returned %s',
          rc, code)
