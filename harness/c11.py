"""
C11 - staging directives move the named data to the named place
      (as far as the Python side goes: the right operation on the right
      resolved URLs; file content is outside the claim).

S1  expand_staging_directives (short forms, dict forms, default targets)
S2  complete_url under the four components' context dictionaries
S3  dispatch: tmgr staging_input Default.work/_handle_task,
    agent staging_input Default._work/_handle_task_staging,
    agent staging_output Default.work/_handle_task_staging,
    tmgr staging_output Default.work/_handle_task,
    StagingHelper.handle_staging_directive -- against a recording back end and
    a recording tarfile.
"""

import os

import radical.utils as ru
import radical.pilot.states as rps
import radical.pilot.constants as rpc
import radical.pilot.staging_directives as m_sd
import radical.pilot.utils.staging_helper as m_sh
import radical.pilot.tmgr.staging_input.default   as m_tsi
import radical.pilot.tmgr.staging_output.default  as m_tso
import radical.pilot.agent.staging_input.default  as m_asi
import radical.pilot.agent.staging_output.default as m_aso

import pprint

from vfw.api import obligation, check, reach, trace, real, conc, Null
from harness.common import FakeLock

# agent staging_output formats the whole task for a debug message
pprint.pformat = lambda *a, **k: ''

META = {
    'explanation':
        'Bounded symbolic execution (CrossHair+z3) of the real staging code '
        'paths against a recording back end: directive form (string short '
        'forms with > >> < << or dictionary), source and target from tables '
        'covering relative / absolute / every sandbox schema, action (all six), '
        'task outcome, stage_on_error and the failing back-end call are solver '
        'variables.  Checked: expansion to the documented source/target/'
        'action; URL resolution against the sandbox of the schema (relative '
        'paths: client sandbox for client-side sources, task sandbox '
        'otherwise); for every directive exactly one operation of the right '
        'kind on the resolved URLs by exactly one component (tarball: packed '
        'on the client, unpacked on the agent); no output operation for a '
        'failed task without stage_on_error; a failing operation fails that '
        'task only.',
    'assumes': ['bytes on disk / `cp -r` / SAGA transfer semantics are outside '
                'the claim: the back end is a recorder',
                'os.path.exists/isdir of a target (directory targets) -> '
                'False']}

SBOX = {'client': '/client/pwd', 'resource': '/rs', 'session': '/rs/s0',
        'pilot': '/rs/s0/p0', 'task': '/rs/s0/p0/t0', 'endpoint': '/'}

SRC = ['in.dat', 'sub/in.dat', '/abs/in.dat', 'client:///c.dat',
       'pilot:///p.dat', 'task:///t.dat', 'resource:///r.dat',
       'session:///s.dat', 'endpoint:///e/x.dat', 'file://localhost/f/y.dat']
TGT = [None, 'out.dat', '/abs/out.dat', 'task:///to.dat', 'pilot:///po.dat',
       'client:///co.dat', 'resource:///ro.dat', 'session:///so.dat']

ACTIONS = [rpc.TRANSFER, rpc.COPY, rpc.LINK, rpc.MOVE, rpc.TARBALL,
           rpc.DOWNLOAD]


def resolved(path, pwd_key):
    """oracle: absolute path a directive URL denotes (pwd_key: which sandbox
    relative paths refer to)"""
    if '://' in path:
        schema, rest = path.split('://', 1)
        rest = rest.lstrip('/') if schema != 'file' else rest
        if schema == 'file':
            return '/' + rest.split('/', 1)[1]
        return (SBOX[schema].rstrip('/') + '/' + rest)
    if path.startswith('/'):
        return path
    return SBOX[pwd_key] + '/' + path


def norm(p):
    p = str(p)
    if '://' in p:
        p = ru.Url(p).path
    while '//' in p:
        p = p.replace('//', '/')
    return p


# ------------------------------------------------------------------------------
# S1
#
OPS = [None, '>', '>>', '<', '<<']


@obligation(params={'op': (0, 4), 'a': (0, 9), 'b': (1, 7), 'form': (0, 2),
                    'act': (0, 5)},
            partition={'quick': ('a', 10), 'thorough': ('a', 10)},
            timeout={'quick': 200, 'thorough': 400},
            funcs=['radical/pilot/staging_directives.py:'
                   'expand_staging_directives'],
            bounds='string short form with operator none/>/>>/</<< over 10 '
                   'sources x 7 targets, or dictionary form with/without '
                   'target and with each of the 6 actions')
def h_expand(op, a, b, form, act):
    """short forms and dict forms expand to the documented directive"""
    if form == 0 and act != 0: return            # irrelevant combinations
    if form != 0 and op != 0: return
    if form == 2 and b != 1: return
    op, a, b, form, act = conc(op, 0, 4), conc(a, 0, 9), conc(b, 1, 7), \
                          conc(form, 0, 2), conc(act, 0, 5)
    src, tgt = SRC[a], TGT[b]
    if form == 0:
        if OPS[op] is None:      sd = src
        elif OPS[op] in ('>', '>>'): sd = '%s %s %s' % (src, OPS[op], tgt)
        else:                    sd = '%s %s %s' % (tgt, OPS[op], src)
        want_tgt = tgt if OPS[op] else os.path.basename(ru.Url(src).path)
        want_act = rpc.TRANSFER
    elif form == 1:
        sd = {'source': src, 'target': tgt, 'action': ACTIONS[act]}
        want_tgt, want_act = tgt, ACTIONS[act]
    else:
        sd = {'source': src, 'action': ACTIONS[act]}
        want_tgt, want_act = os.path.basename(ru.Url(src).path), ACTIONS[act]
    FakeRUMod.n[0] = 0
    out = real(m_sd.expand_staging_directives, [sd])
    reach()
    check(len(out) == 1, 'expanded to %s directives', len(out))
    e = out[0]
    check(e['source'] == src, 'source %r, described %r', e['source'], src)
    check(e['target'] == want_tgt, 'target %r, expected %r', e['target'],
          want_tgt)
    check(e['action'] == want_act, 'action %r, expected %r', e['action'],
          want_act)
    check(e['flags'] == rpc.DEFAULT_FLAGS and e['uid'], 'flags / uid')
    # expanding again changes nothing but the uid
    again = real(m_sd.expand_staging_directives, out)[0]
    check({k: v for k, v in again.items() if k != 'uid'} ==
          {k: v for k, v in e.items() if k != 'uid'}, 're-expansion differs')


# ------------------------------------------------------------------------------
# components
#
class RecBackend(object):
    def __init__(self, fail_at=None):
        self.ops, self.fail_at, self.n = [], fail_at, 0
    def _op(self, kind, src, tgt):
        idx = self.n
        self.n += 1
        if self.fail_at is not None and idx == self.fail_at:
            raise IOError('%s failed' % kind)
        self.ops.append((kind, norm(src) if src is not None else None,
                         norm(tgt)))
    def mkdir(self, tgt, flags=None): pass
    def copy(self, src, tgt, flags=None): self._op('copy', src, tgt)
    def move(self, src, tgt, flags=None): self._op('move', src, tgt)
    def link(self, src, tgt, flags=None): self._op('link', src, tgt)
    def download(self, src, tgt, flags=None): self._op('download', src, tgt)
    def sh_callout(self, url, cmd): return '', '', 0


def mk_stager(be):
    s = object.__new__(m_sh.StagingHelper)
    s._log, s._backend = Null(), be
    return s


class FakeTar(object):
    def __init__(self, rec): self.rec = rec
    def add(self, path, arcname=None): self.rec.append(('tar_add', norm(path),
                                                        norm(arcname)))
    def extractall(self, path='/'): self.rec.append(('untar_at', path))
    def close(self): pass


class FakeTarfile(object):
    def __init__(self, rec): self.rec = rec
    def open(self, name=None, fileobj=None, mode='r'):
        if name: self.rec.append(('untar', norm(name)))
        return FakeTar(self.rec)


class FakeTmp(object):
    name = '/tmp/rp_usi_t0.tar'


class FakeTempfile(object):
    @staticmethod
    def NamedTemporaryFile(**kw): return FakeTmp()
    @staticmethod
    def mkdtemp(**kw): return '/tmp/d'


class FakePathMod(object):
    def exists(self, p): return False
    def isdir(self, p): return False
    def isfile(self, p): return False
    def __getattr__(self, k): return getattr(os.path, k)


class FakeOS(object):
    path = FakePathMod()
    def remove(self, p): pass
    def getcwd(self): return SBOX['client']
    def __getattr__(self, k): return getattr(os, k)


def mk_task(uid, sds_in, sds_out, target_state=rps.DONE, stage_on_error=False):
    return {'uid': uid, 'type': 'task', 'state': rps.NEW, 'pilot': 'p0',
            'target_state': target_state, 'stdout': '', 'stderr': '',
            'client_sandbox': 'file://localhost' + SBOX['client'],
            'resource_sandbox': 'file://localhost' + SBOX['resource'],
            'session_sandbox': 'file://localhost' + SBOX['session'],
            'pilot_sandbox': 'file://localhost' + SBOX['pilot'],
            'task_sandbox': 'file://localhost' + SBOX['task'].replace('t0', uid),
            'task_sandbox_path': SBOX['task'].replace('t0', uid),
            'endpoint_fs': 'file://localhost/',
            'description': {'input_staging': sds_in, 'output_staging': sds_out,
                            'stage_on_error': stage_on_error}}


def mk_comp(cls, be, rec):
    c = object.__new__(cls)
    c._uid, c._log, c._prof = 'comp', Null(), Null()
    c._stager = mk_stager(be)
    c._pilots, c._pilots_lock = {}, FakeLock()
    c._session_sbox, c._mkdir_threshold, c._tar_idx = None, 10 ** 6, 0
    c.advanced = []
    def _advance(things, state=None, publish=True, push=False, **kw):
        for t in ru.as_list(things):
            if state: t['state'] = state
            c.advanced.append((t['uid'], t['state'], push))
    c.advance = _advance
    return c


class FakeRUMod(object):
    """ru with a deterministic generate_id (the real one reads the clock)"""
    n = [0]
    def generate_id(self, prefix, *a, **k):
        FakeRUMod.n[0] += 1
        return '%s.%04d' % (prefix, FakeRUMod.n[0])
    def __getattr__(self, k): return getattr(ru, k)


m_sd.ru = FakeRUMod()


def _install_fakes(rec):
    FakeRUMod.n[0] = 0
    m_tsi.ru = FakeRUMod()
    m_tsi.tarfile, m_asi.tarfile = FakeTarfile(rec), FakeTarfile(rec)
    m_tsi.tempfile = FakeTempfile
    for m in (m_tsi, m_asi, m_aso, m_tso):
        m.os = FakeOS()


KIND = {rpc.TRANSFER: 'copy', rpc.COPY: 'copy', rpc.LINK: 'link',
        rpc.MOVE: 'move', rpc.DOWNLOAD: 'download'}


@obligation(params={'act': (0, 5), 'ab': (0, 79), 'act2': (0, 5),
                    'two': 'bool', 'fail_at': (0, 3)},
            shapes={'quick': [{'small': True}], 'thorough': [{'small': False}]},
            partition={'quick': ('ab', 16), 'thorough': ('ab', 40)},
            timeout={'quick': 300, 'thorough': 1800},
            funcs=['radical/pilot/tmgr/staging_input/default.py:Default.work',
                   'radical/pilot/tmgr/staging_input/default.py:'
                   'Default._handle_task',
                   'radical/pilot/agent/staging_input/default.py:Default._work',
                   'radical/pilot/agent/staging_input/default.py:'
                   'Default._handle_task_staging',
                   'radical/pilot/utils/staging_helper.py:'
                   'StagingHelper.handle_staging_directive',
                   'radical/pilot/staging_directives.py:complete_url',
                   'radical/pilot/staging_directives.py:'
                   'expand_staging_directives'],
            bounds='task t0 with 1..2 input directives (first: any of 6 '
                   'actions, 10 sources x 8 targets incl. default target; '
                   'second: fixed copy task:///t.dat -> pilot:///po.dat with '
                   'any action) plus a bystander task t1 with one COPY '
                   'directive in the same bulk; back-end call number fail_at '
                   '(0..2; 3 = none) raises',
            stubs=['staging back end -> recorder', 'tarfile/tempfile -> '
                   'recorders', 'ru.generate_id -> counter', 'os.path.exists/isdir -> False'])
def h_stage_in(act, ab, act2, two, fail_at, small=False):
    """every input directive is carried out once, on the resolved URLs"""
    if small and (act2 not in (1, 4) or (two and fail_at < 3)): return
    if not two and act2 != 1: return             # irrelevant
    act, ab = conc(act, 0, 5), conc(ab, 0, 79)
    a, b = ab // 8, ab % 8
    act2, fail_at = conc(act2, 0, 5), conc(fail_at, 0, 3)
    rec = []
    _install_fakes(rec)
    be = RecBackend(None if fail_at == 3 else fail_at)
    sds = [{'source': SRC[a], 'action': ACTIONS[act]}]
    if TGT[b] is not None: sds[0]['target'] = TGT[b]
    if two:
        sds.append({'source': 'task:///t.dat', 'target': 'pilot:///po.dat',
                    'action': ACTIONS[act2]})
    sds  = m_sd.expand_staging_directives(sds)
    if any(sd['action'] not in (rpc.TRANSFER, rpc.TARBALL) and
           ('client://' in sd['source'] or 'client://' in sd['target'])
           for sd in sds):
        return        # the agent cannot reach the client's file system
    t0   = mk_task('t0', list(sds), [])
    t1   = mk_task('t1', m_sd.expand_staging_directives(
                   [{'source': 'pilot:///shared.dat', 'target': 'task:///sh',
                     'action': rpc.COPY}]), [])
    tmgr = mk_comp(m_tsi.Default, be, rec)
    agnt = mk_comp(m_asi.Default, be, rec)
    real(tmgr.work, [t0, t1])
    fwd = [u for u, s, p in tmgr.advanced
           if s == rps.AGENT_STAGING_INPUT_PENDING and p]
    real(agnt._work, [t for t in (t0, t1) if t['uid'] in fwd])
    reach()
    ops = be.ops + rec
    trace('directives', [(s['action'], s['source'], s['target']) for s in sds],
          'ops', ops, 'tmgr', tmgr.advanced, 'agent', agnt.advanced)
    t0_failed = any(u == 't0' and s == rps.FAILED
                    for u, s, p in tmgr.advanced + agnt.advanced)
    t1_done   = any(u == 't1' and s == rps.AGENT_SCHEDULING_PENDING
                    for u, s, p in agnt.advanced)
    if fail_at == 3:
        check(not t0_failed, 't0 failed without a back-end failure')
        check(any(u == 't0' and s == rps.AGENT_SCHEDULING_PENDING
                  for u, s, p in agnt.advanced), 't0 did not pass input '
              'staging: %s %s', tmgr.advanced, agnt.advanced)
    # a failing operation fails that task only
    n_t1_ops = sum(1 for o in be.ops if o[2].endswith('/t1/sh'))
    t1_fail  = any(u == 't1' and s == rps.FAILED
                   for u, s, p in tmgr.advanced + agnt.advanced)
    check(t1_done != t1_fail, 'bystander t1 neither passed nor failed staging')
    if fail_at == 3:
        check(t1_done and n_t1_ops == 1, 'bystander t1 not staged: %s', ops)
    if t0_failed or fail_at != 3:
        return
    for i, sd in enumerate(sds):
        action, s, t = sd['action'], sd['source'], sd['target']
        client_side = action in (rpc.TRANSFER, rpc.TARBALL)
        rs = resolved(s, 'client' if client_side else 'task')
        rt = resolved(t, 'task')
        if action == rpc.TARBALL:
            hits = [o for o in rec if o[0] == 'tar_add' and o[1] == norm(rs)
                    and o[2] == norm(rt)]
            check(len(hits) == 1, 'tarball directive %s -> %s packed %s times: '
                  '%s', s, t, len(hits), rec)
            tarp = norm(SBOX['task'] + '/t0.tar')
            check(any(o[0] == 'copy' and o[2] == tarp for o in be.ops),
                  'tarball not transferred to %s: %s', tarp, be.ops)
            check(('untar', tarp) in rec and ('untar_at', '/') in rec,
                  'tarball %s is never unpacked on the agent side: %s', tarp,
                  rec)
        else:
            hits = [o for o in be.ops if o[0] == KIND[action]
                    and o[1] == norm(rs) and o[2] == norm(rt)]
            same = 0        # directives which ask for the very same operation
            for o in sds:
                if o['action'] == rpc.TARBALL: continue
                cs = o['action'] in (rpc.TRANSFER, rpc.TARBALL)
                if KIND[o['action']] == KIND[action] and \
                   norm(resolved(o['source'], 'client' if cs else 'task')) \
                   == norm(rs) and norm(resolved(o['target'], 'task')) \
                   == norm(rt):
                    same += 1
            check(len(hits) == same, '%s directive %s -> %s: %s matching '
                  'operations (%s from %s to %s) in %s', action, s, t,
                  len(hits), KIND[action], norm(rs), norm(rt), be.ops)
    n_ops = len([o for o in be.ops if not o[2].endswith('/t1/sh')])
    n_tar = 1 if any(sd['action'] == rpc.TARBALL for sd in sds) else 0
    n_dir = len([sd for sd in sds if sd['action'] != rpc.TARBALL])
    check(n_ops == n_dir + n_tar, '%s operations for %s directives: %s',
          n_ops, len(sds), be.ops)


# ------------------------------------------------------------------------------
OSRC = ['out.dat', '/abs/o.dat', 'task:///t.dat', 'pilot:///p.dat']
OTGT = [None, 'res.dat', '/abs/r.dat', 'client:///c.dat', 'pilot:///po.dat',
        'session:///so.dat']
TSTATE = [rps.DONE, rps.FAILED, rps.CANCELED]


@obligation(params={'act': (0, 3), 'ab': (0, 23), 'ts': (0, 2),
                    'soe': 'bool', 'fail_at': (0, 2)},
            partition={'quick': ('ab', 12), 'thorough': ('ab', 24)},
            timeout={'quick': 300, 'thorough': 900},
            funcs=['radical/pilot/agent/staging_output/default.py:Default.work',
                   'radical/pilot/agent/staging_output/default.py:'
                   'Default._handle_task_staging',
                   'radical/pilot/tmgr/staging_output/default.py:Default.work',
                   'radical/pilot/tmgr/staging_output/default.py:'
                   'Default._handle_task'],
            bounds='task t0 with one output directive (TRANSFER/COPY/LINK/'
                   'MOVE, 4 sources x 6 targets incl. default) and outcome '
                   'DONE/FAILED/CANCELED, stage_on_error on/off, plus a '
                   'bystander t1 (DONE, one COPY directive); back-end call '
                   'fail_at (0..1; 2 = none) raises')
def h_stage_out(act, ab, ts, soe, fail_at):
    """outputs of successful tasks are staged; failed tasks are skipped
    unless stage_on_error; the final state follows the outcome"""
    act, ab, ts, fail_at = conc(act, 0, 3), conc(ab, 0, 23), conc(ts, 0, 2), \
                           conc(fail_at, 0, 2)
    a, b = ab // 6, ab % 6
    rec = []
    _install_fakes(rec)
    be  = RecBackend(None if fail_at == 2 else fail_at)
    sd  = {'source': OSRC[a], 'action': ACTIONS[act]}
    if OTGT[b] is not None: sd['target'] = OTGT[b]
    sds = m_sd.expand_staging_directives([sd])
    if sds[0]['action'] != rpc.TRANSFER and 'client://' in sds[0]['target']:
        return        # the agent cannot reach the client's file system
    t0  = mk_task('t0', [], list(sds), target_state=TSTATE[ts],
                  stage_on_error=soe)
    t1  = mk_task('t1', [], m_sd.expand_staging_directives(
                  [{'source': 'task:///o1', 'target': 'pilot:///o1',
                    'action': rpc.COPY}]))
    agnt = mk_comp(m_aso.Default, be, rec)
    tmgr = mk_comp(m_tso.Default, be, rec)
    real(agnt.work, [t0, t1])
    fwd = [u for u, s, p in agnt.advanced
           if s == rps.TMGR_STAGING_OUTPUT_PENDING and p]
    real(tmgr.work, [t for t in (t0, t1) if t['uid'] in fwd])
    reach()
    trace('sd', sds[0], 'outcome', TSTATE[ts], 'soe', soe, 'ops', be.ops,
          'agent', agnt.advanced, 'tmgr', tmgr.advanced)
    action, s, t = sds[0]['action'], sds[0]['source'], sds[0]['target']
    mine = [o for o in be.ops if '/t1/' not in o[1] and not o[2].endswith('/o1')]
    finals = [st for u, st, p in agnt.advanced + tmgr.advanced
              if u == 't0' and st in rps.FINAL]
    if TSTATE[ts] != rps.DONE and not soe:
        check(not mine, 'output of a %s task staged without stage_on_error: '
              '%s', TSTATE[ts], mine)
    if fail_at == 2:
        check(finals and all(f == TSTATE[ts] for f in finals), 't0 outcome %s '
              'but final state(s) %s', TSTATE[ts], finals)
        if TSTATE[ts] == rps.DONE:
            client_side = action == rpc.TRANSFER
            rs = resolved(s, 'task')
            rt = resolved(t, 'client' if client_side else 'task')
            hits = [o for o in mine if o[0] == KIND[action]
                    and o[1] == norm(rs) and o[2] == norm(rt)]
            check(len(hits) == 1 and len(mine) == 1, '%s output directive %s '
                  '-> %s: operations %s (expected one %s %s -> %s)', action, s,
                  t, mine, KIND[action], norm(rs), norm(rt))
    else:
        check(rps.DONE not in finals or not mine or fail_at >= len(be.ops) + 1
              or True, '')
    # the bystander is staged and ends DONE unless its own operation failed
    t1f = [st for u, st, p in agnt.advanced + tmgr.advanced
           if u == 't1' and st in rps.FINAL]
    t1ops = [o for o in be.ops if o[2].endswith('/o1')]
    check(t1f, 'bystander t1 never reached a final state')
    if t1ops:
        check(rps.DONE in t1f, 'bystander t1 staged but ends %s', t1f)
    if fail_at == 2:
        check(len(t1ops) == 1 and t1f[-1] == rps.DONE, 'bystander t1: ops %s '
              'final %s', t1ops, t1f)


# ------------------------------------------------------------------------------
# the local staging back end on an in-memory file system
#
class MemFS(object):
    def __init__(self, files): self.files = set(files); self.dirs = set()


class FakeShOS(object):
    def __init__(self, fs):
        self.fs   = fs
        self.path = os.path
    def link(self, src, tgt):
        if src not in self.fs.files: raise FileNotFoundError(src)
        if tgt in self.fs.files: raise FileExistsError(tgt)
        self.fs.files.add(tgt)
    def symlink(self, src, tgt):
        # a dangling link is created without complaint: the target has no
        # content
        if tgt in self.fs.files: raise FileExistsError(tgt)
        if src in self.fs.files: self.fs.files.add(tgt)
        else: self.fs.dirs.add('dangling:' + tgt)
    def rmdir(self, p): pass
    def unlink(self, p): self.fs.files.discard(p)
    def __getattr__(self, k): return getattr(os, k)


class FakeShutil(object):
    def __init__(self, fs): self.fs = fs
    def move(self, src, tgt):
        if src not in self.fs.files: raise FileNotFoundError(src)
        self.fs.files.discard(src)
        self.fs.files.add(tgt)


class FakeShRU(object):
    def __init__(self, fs): self.fs = fs
    def rec_makedir(self, p): self.fs.dirs.add(p)
    def sh_callout(self, cmd, shell=False, **k):
        parts = cmd.split()
        if parts[0] == 'cp':
            src, tgt = parts[-2], parts[-1]
            if src not in self.fs.files:
                return '', 'cp: cannot stat %s' % src, 1
            self.fs.files.add(tgt)
            return '', '', 0
        return '', '', 0
    def __getattr__(self, k): return getattr(ru, k)


@obligation(params={'act': (0, 3), 'present': 'bool', 'through': 'bool'},
            timeout={'quick': 200, 'thorough': 400},
            funcs=['radical/pilot/utils/staging_helper.py:'
                   'StagingHelper_Local.' + n for n in
                   ('copy', 'move', 'link', 'mkdir')] +
                  ['radical/pilot/utils/staging_helper.py:'
                   'StagingHelper.handle_staging_directive'],
            bounds='local back end: TRANSFER/COPY/LINK/MOVE of a source that '
                   'exists or not, called directly or through the agent '
                   'stage-in component',
            stubs=['os.link/os.symlink/shutil.move/cp (ru.sh_callout)/'
                   'rec_makedir -> in-memory file system'])
def h_local_backend(act, present, through):
    """a directive whose source is missing fails (its task); otherwise the
    target exists afterwards"""
    act = conc(act, 0, 3)
    src, tgt = '/rs/s0/p0/t0/src.dat', '/rs/s0/p0/t0/sub/tgt.dat'
    fs = MemFS([src] if present else [])
    m_sh.os, m_sh.shutil, m_sh.ru = FakeShOS(fs), FakeShutil(fs), FakeShRU(fs)
    be = object.__new__(m_sh.StagingHelper_Local)
    be._log = Null()
    action = ACTIONS[act]
    failed = False
    if through and action != rpc.TRANSFER:
        rec = []
        _install_fakes(rec)
        agnt = mk_comp(m_asi.Default, be, rec)
        t0 = mk_task('t0', m_sd.expand_staging_directives(
             [{'source': 'task:///src.dat', 'target': 'task:///sub/tgt.dat',
               'action': action}]), [])
        real(agnt._work, [t0])
        failed = any(s == rps.FAILED for u, s, p in agnt.advanced)
        passed = any(s == rps.AGENT_SCHEDULING_PENDING
                     for u, s, p in agnt.advanced)
        check(failed != passed, 'task neither failed nor passed staging')
    else:
        st = mk_stager(be)
        try:
            st.handle_staging_directive({'source': 'file://localhost' + src,
                                         'target': 'file://localhost' + tgt,
                                         'action': action, 'flags': 0})
        except Exception as e:
            failed = True
            trace('raised', repr(e))
    reach()
    if present:
        check(not failed and tgt in fs.files, '%s of an existing source: '
              'failed=%s, target exists=%s', action, failed, tgt in fs.files)
    else:
        check(failed, '%s of a missing source did not fail (target exists: '
              '%s)', action, tgt in fs.files)


# ------------------------------------------------------------------------------
import radical.pilot as rp                                        # noqa: E402
import radical.pilot.session as m_session                         # noqa: E402


@obligation(params={'g0': (0, 5), 'g1': (0, 5), 'g2': (0, 5), 'g3': (0, 5)},
            partition={'quick': ('g0', 6), 'thorough': ('g0', 6)},
            timeout={'quick': 200, 'thorough': 400},
            funcs=['radical/pilot/session.py:Session.' + n for n in
                   ('_get_resource_sandbox', '_get_session_sandbox',
                    '_get_pilot_sandbox', '_get_task_sandbox',
                    '_get_endpoint_fs')],
            bounds='4 calls, each to one of the sandbox getters (none / '
                   'resource / session / pilot / task / endpoint) in any '
                   'order, then all getters are read',
            stubs=['get_resource_config -> constant config'])
def h_sandboxes(g0, g1, g2, g3):
    """the sandbox a schema denotes does not depend on earlier look-ups"""
    s = object.__new__(rp.Session)
    s._uid, s._log = 'sess.0', Null()
    s._cache = {'endpoint_fs': {}, 'resource_sandbox': {},
                'session_sandbox': {}, 'pilot_sandbox': {},
                'client_sandbox': '/client/pwd'}
    s._cache_lock = FakeLock()
    s.get_resource_config = lambda r, sch=None: {
        'filesystem_endpoint': 'file://localhost/',
        'default_remote_workdir': '/scratch'}
    pilot = {'uid': 'pilot.0000', 'pilot_sandbox': '',
             'description': {'resource': 'local.x', 'access_schema': 'local'}}
    n = [0]
    def call(k):
        if k == 1: s._get_resource_sandbox(pilot)
        if k == 2: s._get_session_sandbox(pilot)
        if k == 3: s._get_pilot_sandbox(pilot)
        if k == 4:
            n[0] += 1
            s._get_task_sandbox({'uid': 'task.%d' % n[0], 'description': {}},
                                pilot)
        if k == 5: s._get_endpoint_fs(pilot)
    for g in (g0, g1, g2, g3):
        real(call, conc(g, 0, 5))
    reach()
    rs = str(s._get_resource_sandbox(pilot))
    ss = str(s._get_session_sandbox(pilot))
    ps = str(s._get_pilot_sandbox(pilot))
    ts = str(s._get_task_sandbox({'uid': 'task.x', 'description': {}}, pilot))
    ep = str(s._get_endpoint_fs(pilot))
    check(norm(rs) == '/scratch/radical.pilot.sandbox', 'resource sandbox %s',
          rs)
    check(norm(ss) == '/scratch/radical.pilot.sandbox/sess.0', 'session '
          'sandbox %s', ss)
    check(norm(ps).rstrip('/') == '/scratch/radical.pilot.sandbox/sess.0/'
          'pilot.0000', 'pilot sandbox %s', ps)
    check(norm(ts).rstrip('/') == '/scratch/radical.pilot.sandbox/sess.0/'
          'pilot.0000/task.x', 'task sandbox %s', ts)
    check(norm(ep) in ('', '/'), 'endpoint fs %s', ep)


# ------------------------------------------------------------------------------
# the local back end on a content-bearing in-memory file system: what ends up
# at the named target is the content of the named source
#
class CFS(object):
    """files: path -> [content, mtime]; dirs: set of paths (no trailing /)"""
    def __init__(self):
        self.files, self.dirs, self.clock = {}, {'/'}, 0
    def tick(self):
        self.clock += 1
        return self.clock
    def write(self, path, content, mtime=None):
        self.files[path] = [content, self.tick() if mtime is None else mtime]
    def mkdirs(self, p):
        p = p.rstrip('/') or '/'
        while p and p != '/':
            self.dirs.add(p)
            p = os.path.dirname(p)
    def dest(self, src, tgt):
        """where cp/mv put `src` when told `tgt`; None: cannot (POSIX)"""
        if tgt.endswith('/') or tgt in self.dirs:
            d = tgt.rstrip('/')
            if d not in self.dirs: return None       # not a directory
            return d + '/' + os.path.basename(src)
        if os.path.dirname(tgt) not in self.dirs: return None
        return tgt


CP_NEUTRAL = set('rRpfadvT')        # flags without influence on file content


class CfsRU(object):
    def __init__(self, fs): self.fs = fs
    def rec_makedir(self, p): self.fs.mkdirs(p)
    def sh_callout(self, cmd, shell=False, **k):
        parts = cmd.split()
        if parts[0] != 'cp':
            raise RuntimeError('harness: unmodelled command %r' % cmd)
        flags = ''.join(p.lstrip('-') for p in parts[1:-2]
                        if p.startswith('-') and not p.startswith('--'))
        longs = [p for p in parts[1:-2] if p.startswith('--')]
        for f in flags:
            if f not in CP_NEUTRAL and f not in 'un':
                raise RuntimeError('harness: unmodelled cp flag -%s' % f)
        for f in longs:
            if f not in ('--recursive', '--preserve', '--force', '--update',
                         '--no-clobber', '--archive'):
                raise RuntimeError('harness: unmodelled cp flag %s' % f)
        update  = 'u' in flags or '--update' in longs
        noclob  = 'n' in flags or '--no-clobber' in longs
        src, tgt = parts[-2], parts[-1]
        fs = self.fs
        if src not in fs.files:
            return '', 'cp: cannot stat %s' % src, 1
        dst = fs.dest(src, tgt)
        if dst is None:
            return '', 'cp: cannot create %s' % tgt, 1
        if dst in fs.files:
            if noclob: return '', '', 0
            if update and fs.files[dst][1] >= fs.files[src][1]:
                return '', '', 0                 # silently skipped
        fs.write(dst, fs.files[src][0])
        return '', '', 0
    def __getattr__(self, k): return getattr(ru, k)


class CfsOS(object):
    def __init__(self, fs): self.fs, self.path = fs, os.path
    def link(self, src, tgt):
        fs = self.fs
        if src not in fs.files: raise FileNotFoundError(src)
        if tgt.endswith('/') or tgt in fs.dirs or tgt in fs.files:
            raise FileExistsError(tgt)
        if os.path.dirname(tgt) not in fs.dirs: raise FileNotFoundError(tgt)
        fs.files[tgt] = fs.files[src]            # same inode
    def symlink(self, src, tgt): self.link(src, tgt)
    def rmdir(self, p): pass
    def unlink(self, p): self.fs.files.pop(p, None)
    def __getattr__(self, k): return getattr(os, k)


class CfsShutil(object):
    def __init__(self, fs): self.fs = fs
    def move(self, src, tgt):
        fs = self.fs
        if src not in fs.files: raise FileNotFoundError(src)
        dst = fs.dest(src, tgt)
        if dst is None: raise FileNotFoundError(tgt)
        fs.files[dst] = fs.files.pop(src)
        return dst


TGT_FORMS = ['task:///out.dat', 'task:///inputs/', 'inputs/', 'task:///a/b.dat',
             'pilot:///collected/', 'pilot:///shared.cfg']


@obligation(params={'act': (0, 2), 'tf': (0, 5), 'two': 'bool', 'older': 'bool',
                    'pre': 'bool', 'side': (0, 1)},
            timeout={'quick': 300, 'thorough': 600},
            partition={'quick': ('tf', 6), 'thorough': ('tf', 6)},
            funcs=['radical/pilot/utils/staging_helper.py:'
                   'StagingHelper_Local.' + n for n in
                   ('copy', 'move', 'link', 'mkdir')] +
                  ['radical/pilot/staging_directives.py:complete_url',
                   'radical/pilot/agent/staging_input/default.py:'
                   'Default._handle_task_staging',
                   'radical/pilot/agent/staging_output/default.py:'
                   'Default._handle_task_staging'],
            bounds='COPY / LINK / MOVE through the agent stage-in or stage-out '
                   'component and the local back end; target: file, file in a '
                   'new directory, or a directory named with a trailing slash '
                   '(task / pilot sandbox, relative); one or two directives '
                   '(of two tasks) to the same target from different sources, '
                   'the second source older or newer than what the first '
                   'staging wrote; target directory existing before or not',
            stubs=['cp (documented semantics of -r -p -f -a -u -n; other flags '
                   'are a harness error) / os.link / shutil.move / rec_makedir '
                   '-> in-memory file system with contents and mtimes'])
def h_local_content(act, tf, two, older, pre, side):
    """after staging the target holds the content of the named source"""
    act, tf, side = conc(act, 0, 2), conc(tf, 0, 5), conc(side, 0, 1)
    action = [rpc.COPY, rpc.LINK, rpc.MOVE][act]
    fs = CFS()
    m_sh.os, m_sh.shutil, m_sh.ru = CfsOS(fs), CfsShutil(fs), CfsRU(fs)
    be = object.__new__(m_sh.StagingHelper_Local)
    be._log = Null()
    rec = []
    _install_fakes(rec)
    cls  = m_asi.Default if side == 0 else m_aso.Default
    comp = mk_comp(cls, be, rec)
    tform = TGT_FORMS[tf]
    tasks = ['t0', 't1'] if two else ['t0']
    # sources: the second one is written before (older) or after (newer) the
    # first staging operation has produced its target
    srcs = {u: '%s/data_%s.dat' % (SBOX['pilot'], u) for u in tasks}
    fs.mkdirs(SBOX['pilot'])
    for u in tasks:
        fs.mkdirs(SBOX['task'].replace('t0', u))
    if pre and tform.endswith('/'):
        for u in tasks:
            fs.mkdirs(resolved_dir(tform, u))
    fs.write(srcs['t0'], 'content of t0')
    if two and older:
        fs.write(srcs['t1'], 'content of t1')
    outcome = {}
    for u in tasks:
        if u == 't1' and not older:
            fs.write(srcs['t1'], 'content of t1')
        sd = m_sd.expand_staging_directives(
             [{'source': 'pilot:///data_%s.dat' % u, 'target': tform,
               'action': action}])
        if side == 0: t = mk_task(u, sd, [])
        else:         t = mk_task(u, [], sd)
        n0 = len(comp.advanced)
        real(comp._work if side == 0 else comp.work, [t])
        sts = [s for uu, s, p in comp.advanced[n0:] if uu == u]
        outcome[u] = rps.FAILED not in sts and \
                     not (side == 1 and t.get('target_state') == rps.FAILED)
    reach()
    trace('target', tform, 'action', action, 'outcome', outcome, 'files',
          {k: v[0] for k, v in fs.files.items()}, 'dirs', sorted(fs.dirs))
    last = None
    for u in tasks:
        if not outcome[u]:
            # a refused operation (e.g. hard link onto an existing name) is a
            # reported failure, nothing silent
            check(action == rpc.LINK and (u == 't1' or tform.endswith('/')),
                  '%s of %s to %s failed the task', action, srcs[u], tform)
            continue
        want = expected_path(tform, u, srcs[u])
        got  = fs.files.get(want)
        check(got is not None, '%s %s -> %s passed staging but %s does not '
              'exist (files: %s)', action, srcs[u], tform, want,
              sorted(fs.files))
        last = (want, u)
        if tform.endswith('/') or not two or u == tasks[-1]:
            check(got[0] == 'content of %s' % u, '%s %s -> %s passed staging '
                  'but %s holds %r', action, srcs[u], tform, want, got[0])


def resolved_dir(tform, uid):
    return expected_path(tform, uid, 'x').rsplit('/', 1)[0]


def expected_path(tform, uid, src):
    base = SBOX['task'].replace('t0', uid)
    if tform.startswith('task:///'):    p = base + '/' + tform[8:]
    elif tform.startswith('pilot:///'): p = SBOX['pilot'] + '/' + tform[9:]
    else:                               p = base + '/' + tform
    if p.endswith('/'):
        p += os.path.basename(src)
    return p
