"""
C12 - each task is bound to exactly one eligible pilot.

Real code: TMGRSchedulingComponent.work / control_cb / _base_state_cb /
_update_pilot_states / _assign_pilot, RoundRobin.*, Backfilling.*.
A symbolic event sequence (task submissions, pilot additions/removals, pilot
and task state notifications) is applied; every advance() is recorded together
with the role/state of the chosen pilot at that moment.
"""

import radical.utils as ru
import radical.pilot.states as rps
import radical.pilot.constants as rpc
import radical.pilot.tmgr.scheduler.base        as m_tb
import radical.pilot.tmgr.scheduler.round_robin as m_rr
import radical.pilot.tmgr.scheduler.backfilling as m_bf

from vfw.api import obligation, check, reach, trace, real, conc, Null
from harness.common import FakeLock

META = {
    'explanation':
        'Bounded model checking of the real client-side schedulers by '
        'symbolic execution (CrossHair+z3): a symbolic sequence of events '
        '(submission of a batch of named/unnamed tasks, add/remove pilot '
        'commands, pilot state notifications, task state notifications) is '
        'applied to RoundRobin and Backfilling instances through the real '
        'work() / control_cb() / _base_state_cb(); every forward '
        '(TMGR_STAGING_INPUT_PENDING) is recorded with the pilot it names and '
        'that pilot\'s role and state at that moment.',
    'assumes': ['session sandbox getters are stubbed to constants',
                'commands the scheduler refuses with ValueError (remove of a '
                'pilot that is not added, double add) end the history']}

PIDS = ['pilot.0000', 'pilot.0001']
FUNCS_B = ['radical/pilot/tmgr/scheduler/base.py:TMGRSchedulingComponent.' + n
           for n in ('work', 'control_cb', '_base_state_cb',
                     '_update_pilot_states', '_assign_pilot')]


class FakeSession(object):
    def _get_client_sandbox(self):           return '/client'
    def _get_endpoint_fs(self, p):           return 'file://localhost/'
    def _get_resource_sandbox(self, p):      return 'file://localhost/rs'
    def _get_session_sandbox(self, p):       return 'file://localhost/rs/s'
    def _get_pilot_sandbox(self, p):         return 'file://localhost/rs/s/%s' % p['uid']
    def _get_task_sandbox(self, t, p):       return 'file://localhost/rs/s/%s/%s' % (p['uid'], t['uid'])


class World(object):

    def __init__(self, kind, cores=(4, 4)):
        cls = m_rr.RoundRobin if kind == 0 else m_bf.Backfilling
        s = object.__new__(cls)
        s._uid   = 'tmgr.0000.scheduling.0000'
        s._log   = Null()
        s._prof  = Null()
        s._tmgr  = 'tmgr.0000'
        s._session = FakeSession()
        s._early = dict()
        s._pilots = dict()
        s._pilots_lock = FakeLock()
        s._tasks = dict()
        s._tasks_lock = FakeLock()
        s._waiting = dict()
        s._waiting_lock = dict()
        s._cancel_lock = FakeLock()
        s._cancel_list = []
        self.s     = s
        self.kind  = kind
        self.cores = cores
        self.fwd   = []      # (uid, pid, role, pstate, used, hwm, batch_id)
        self.failed = []
        self.tasks = {}      # uid -> (named pid or None, batch)
        self.added_ever = set()
        self.finished = set()
        self.true_state = {}  # pid -> furthest state reported on any channel
        self.n = 0
        self.batch = 0
        self.calls = 0
        w = self

        def _advance(things, state=None, publish=True, push=False, **kw):
            w.calls += 1
            for t in ru.as_list(things):
                if state:
                    t['state'] = state
                if state == rps.TMGR_STAGING_INPUT_PENDING:
                    pid = t.get('pilot')
                    p   = s._pilots.get(pid, {})
                    inf = p.get('info') or {}
                    n_added = sum(1 for d in s._pilots.values()
                                  if d['role'] == m_tb.ADDED)
                    w.fwd.append((t['uid'], pid, p.get('role'),
                                  w.true_state.get(pid, p.get('state')),
                                  inf.get('used'), n_added, w.calls))
                    trace('forward', t['uid'], pid, p.get('role'),
                          p.get('state'))
                elif state == rps.FAILED:
                    w.failed.append(t['uid'])
                    trace('failed', t['uid'])
        s.advance = _advance
        # what _configure() sets up (ru.RLock() reads the clock: not under
        # symbolic execution)
        s._wait_pool = list() if kind == 0 else dict()
        s._wait_lock = FakeLock()
        s._pids      = list()
        s._idx       = 0

    def pilot_doc(self, i, state=rps.PMGR_LAUNCHING):
        return {'uid': PIDS[i], 'type': 'pilot', 'state': state,
                'description': {'cores': self.cores[i]}}

    def _saw(self, pid, state):
        # pilot states only move forward: what counts is the furthest state
        # any notification or command snapshot has reported so far
        cur = self.true_state.get(pid)
        if cur is None or rps._pilot_state_value(state) > \
                          rps._pilot_state_value(cur):
            self.true_state[pid] = state

    # -- events; return False when the real code refused the command
    def submit(self, named):
        # named: list over tasks: None or pilot index
        self.batch += 1
        tasks = []
        for nm in named:
            uid = 't%d' % self.n
            self.n += 1
            t = {'uid': uid, 'type': 'task',
                 'state': rps.TMGR_SCHEDULING_PENDING,
                 'pilot': PIDS[nm] if nm is not None else None,
                 'description': {'ranks': 1, 'cores_per_rank': 2}}
            self.tasks[uid] = (t['pilot'], self.batch, t)
            tasks.append(t)
        trace('submit', [(t['uid'], t['pilot']) for t in tasks])
        real(self.s.work, tasks)
        return True

    def add(self, idxs, state=rps.PMGR_LAUNCHING):
        msg = {'cmd': 'add_pilots', 'arg': {'tmgr': 'tmgr.0000',
               'pilots': [self.pilot_doc(i, state) for i in idxs]}}
        trace('add', idxs, state)
        for i in idxs:
            self._saw(PIDS[i], state)
        try:
            self.s.control_cb(rpc.CONTROL_PUBSUB, msg)
        except ValueError:
            return False
        for i in idxs:
            self.added_ever.add(PIDS[i])
        return True

    def remove(self, i):
        idxs = i if isinstance(i, list) else [i]
        msg = {'cmd': 'remove_pilots', 'arg': {'tmgr': 'tmgr.0000',
               'pids': [PIDS[k] for k in idxs]}}
        trace('remove', idxs)
        try:
            self.s.control_cb(rpc.CONTROL_PUBSUB, msg)
        except ValueError:
            return False
        return True

    def pilot_state(self, i, state):
        trace('pilot state', i, state)
        self._saw(PIDS[i], state)
        try:
            self.s._base_state_cb(rpc.STATE_PUBSUB, {'cmd': 'update', 'arg': [
                {'type': 'pilot', 'uid': PIDS[i], 'state': state}]})
        except ValueError:
            return False
        return True

    def unknown_pilot_state(self):
        # a state notification for a pilot which was never added to this tmgr
        trace('state of unknown pilot')
        self.s._base_state_cb(rpc.STATE_PUBSUB, {'cmd': 'update', 'arg': [
            {'type': 'pilot', 'uid': 'pilot.0009',
             'state': rps.PMGR_ACTIVE}]})
        return True

    def finish_tasks(self, i, state=rps.DONE):
        # every task forwarded to pilot i reports a state beyond execution
        docs = []
        for uid, pid, *_ in self.fwd:
            if pid == PIDS[i]:
                t = self.tasks[uid][2]
                docs.append({'type': 'task', 'uid': uid, 'state': state,
                             'pilot': pid, 'description': t['description']})
        trace('finish', i, [d['uid'] for d in docs])
        if docs:
            try:
                self.s._base_state_cb(rpc.STATE_PUBSUB,
                                      {'cmd': 'update', 'arg': docs})
            except RuntimeError as e:
                trace('state cb raised', repr(e))
            # a task occupies its pilot until it reports a state beyond
            # AGENT_EXECUTING
            if rps._task_state_value(state) > \
               rps._task_state_value(rps.AGENT_EXECUTING):
                self.finished.update(d['uid'] for d in docs)
        return True

    # -- oracle
    def waiting(self, uid):
        s = self.s
        n = 0
        wp = s._wait_pool
        if isinstance(wp, dict): n += 1 if uid in wp else 0
        else: n += sum(1 for t in wp if t['uid'] == uid)
        for pid, lst in s._early.items():
            # an early-bound task counts as waiting until it was forwarded
            n += sum(1 for t in lst if t['uid'] == uid
                     and not any(f[0] == uid for f in self.fwd))
        return n

    def check_all(self):
        s = self.s
        per = {}
        for f in self.fwd:
            per.setdefault(f[0], []).append(f)
        for uid, (named, batch, t) in self.tasks.items():
            fs = per.get(uid, [])
            check(len(fs) <= 1, '%s forwarded %s times: %s', uid, len(fs),
                  [(f[1], f[2]) for f in fs])
            nfail = self.failed.count(uid)
            check(len(fs) + nfail + (1 if self.waiting(uid) else 0) == 1,
                  '%s: forwarded %s, failed %s, waiting %s (lost or '
                  'duplicated)', uid, len(fs), nfail, self.waiting(uid))
            if not fs:
                continue
            _, pid, role, pstate, used, hwm, _ = fs[0]
            check(pid in PIDS, '%s forwarded without a pilot: %s', uid, pid)
            check(t['pilot'] == pid, '%s forwarded for %s but carries %s',
                  uid, pid, t['pilot'])
            if named:
                check(pid == named, '%s names %s but went to %s', uid, named,
                      pid)
                check(pid in self.added_ever, '%s forwarded to %s before that '
                      'pilot was added', uid, pid)
            else:
                check(role == m_tb.ADDED, '%s went to pilot %s with role %s',
                      uid, pid, role)
                if self.kind == 1:
                    check(pstate == rps.PMGR_ACTIVE, 'backfilling assigned %s '
                          'to %s in state %s', uid, pid, pstate)
        # backfilling: usage returns to zero once all tasks of a pilot finished
        if self.kind == 1:
            for pid, d in s._pilots.items():
                mine = [f[0] for f in self.fwd if f[1] == pid]
                if d.get('info') and mine and all(u in self.finished
                                                  for u in mine):
                    check(d['info'].get('used', 0) == 0, 'backfilling: all '
                          'tasks of %s finished but usage figure is %s', pid,
                          d['info'].get('used'))
        # no eligible pilot -> unnamed tasks wait; eligible pilot -> none waits
        added = [p for p, d in s._pilots.items() if d['role'] == m_tb.ADDED]
        if self.kind == 0:
            for uid, (named, batch, t) in self.tasks.items():
                if not named and added:
                    check(not self.waiting(uid), 'round robin: %s waits '
                          'although pilot(s) %s are added', uid, added)
            # per batch spread: counts differ by at most one over the pilots
            # that were added when the batch was forwarded
            calls, nadd = {}, {}
            for uid, pid, role, pstate, used, n_added, call in self.fwd:
                if not self.tasks[uid][0]:
                    calls.setdefault(call, {}).setdefault(pid, 0)
                    calls[call][pid] += 1
                    nadd[call] = n_added
            for call, cnt in calls.items():
                vals = list(cnt.values())
                vals += [0] * (nadd[call] - len(vals))
                check(max(vals) - min(vals) <= 1, 'round robin spread %s over '
                      '%s added pilots', cnt, nadd[call])


# events: see _apply
def _apply(w, ev):
    if ev == 0:  return True
    if ev == 1:  return w.submit([None])
    if ev == 2:  return w.submit([None, None])
    if ev == 3:  return w.submit([None, None, None])
    if ev == 4:  return w.submit([0])
    if ev == 5:  return w.submit([1, None])
    if ev == 6:  return w.add([0])
    if ev == 7:  return w.add([1])
    if ev == 8:  return w.add([0, 1])
    if ev == 9:  return w.remove(0)
    if ev == 10: return w.remove(1)
    if ev == 11: return w.pilot_state(0, rps.PMGR_ACTIVE)
    if ev == 12: return w.pilot_state(1, rps.PMGR_ACTIVE)
    if ev == 13: return w.pilot_state(0, rps.DONE)
    if ev == 14: return w.finish_tasks(0)
    if ev == 15: return w.finish_tasks(1, rps.FAILED)
    if ev == 16: return w.remove([0, 1])
    if ev == 17: return w.submit([None, None, None, None])
    return w.unknown_pilot_state()


NEV = 18


@obligation(params={'kind': (0, 1), 'e0': (1, NEV), 'e1': (0, NEV),
                    'e2': (0, NEV), 'e3': (0, NEV)},
            shapes={'quick': [{'L': 3}], 'thorough': [{'L': 4}]},
            partition={'quick': ('e0', 18), 'thorough': ('e0', 18)},
            timeout={'quick': 300, 'thorough': 3000},
            funcs=FUNCS_B + ['radical/pilot/tmgr/scheduler/round_robin.py:'
                             'RoundRobin._schedule_tasks',
                             'radical/pilot/tmgr/scheduler/backfilling.py:'
                             'Backfilling._schedule_tasks',
                             'radical/pilot/tmgr/scheduler/backfilling.py:'
                             'Backfilling.update_tasks'],
            bounds='scheduler kind RoundRobin/Backfilling; 2 pilots (4 cores '
                   'each); L events over {submit 1/2/3 unnamed tasks, submit a '
                   'task naming p0, submit [naming p1, unnamed], add p0 / p1 / '
                   'both, remove p0 / p1 / both in one command, pilot p0/p1 '
                   'ACTIVE, p0 DONE, tasks of p0 DONE, tasks of p1 FAILED, submit '
                   '4 unnamed tasks, state notification for a pilot that was '
                   'never added}',
            stubs=['session sandbox getters -> constants', 'advance -> '
                   'recorder', 'locks no-op'])
def h_events(kind, e0, e1, e2, e3, L=3):
    """every task is forwarded exactly once, to an eligible pilot"""
    kind = conc(kind, 0, 1)
    evs  = [conc(e0, 1, NEV), conc(e1, 0, NEV), conc(e2, 0, NEV),
            conc(e3, 0, NEV) if L >= 4 else 0]
    w = World(kind)
    for ev in evs[:L]:
        if not _apply(w, ev):
            return
    reach()
    w.check_all()


# ------------------------------------------------------------------------------
@obligation(params={'kind': (0, 1), 'a': (0, 4), 'b': (0, 4), 'c': (0, 4),
                    'd': (0, 4), 'e': (0, 4)},
            partition={'quick': ('a', 5), 'thorough': ('a', 5)},
            timeout={'quick': 300, 'thorough': 900},
            funcs=FUNCS_B,
            bounds='5 events over {none, submit a task naming p1, add p1, '
                   'remove p1, add p0}: early binding and re-adding a pilot')
def h_early(kind, a, b, c, d, e):
    """early-bound tasks are forwarded exactly once, also when their pilot is
    removed and added again"""
    kind = conc(kind, 0, 1)
    w = World(kind)
    for x in (a, b, c, d, e):
        x = conc(x, 0, 4)
        ok = True
        if x == 1: ok = w.submit([1])
        if x == 2: ok = w.add([1])
        if x == 3: ok = w.remove(1)
        if x == 4: ok = w.add([0])
        if not ok:
            return
    reach()
    w.check_all()


# ------------------------------------------------------------------------------
@obligation(params={'c0': (0, 3), 'n': (1, 5), 'fin': (0, 2), 'dup': 'bool',
                    'act_first': 'bool', 'again': (0, 2), 'execn': 'bool'},
            partition={'quick': ('n', 5), 'thorough': ('n', 5)},
            timeout={'quick': 300, 'thorough': 900},
            funcs=['radical/pilot/tmgr/scheduler/backfilling.py:Backfilling.'
                   + n for n in ('add_pilots', 'update_pilots', 'update_tasks',
                                 '_work', '_schedule_tasks')],
            bounds='Backfilling with one pilot of 1/2/4/8 cores (hwm 200%); '
                   'n=1..5 tasks of 2 cores; pilot becomes ACTIVE before or '
                   'after the submission; optionally all assigned tasks report '
                   'AGENT_EXECUTING; optionally a further scheduling pass '
                   '(another submission / a pilot state notification + a second '
                   'pilot); then every assigned task reports '
                   'AGENT_STAGING_OUTPUT_PENDING / DONE / FAILED (optionally '
                   'twice)')
def h_backfill_hwm(c0, n, fin, dup, act_first, again, execn):
    """never beyond the high-water mark; usage returns to zero"""
    c0, n, fin = conc(c0, 0, 3), conc(n, 1, 5), conc(fin, 0, 2)
    again = conc(again, 0, 2)
    cores = [1, 2, 4, 8][c0]
    w = World(1, cores=(cores, 4))
    check(w.add([0]), 'add refused')
    if act_first:
        w.pilot_state(0, rps.PMGR_ACTIVE)
    w.submit([None] * n)
    if not act_first:
        check(not w.fwd, 'assigned before the pilot was ACTIVE')
        w.pilot_state(0, rps.PMGR_ACTIVE)
    # tasks which start to execute still occupy their pilot
    if execn:
        w.finish_tasks(0, rps.AGENT_EXECUTING)
    # further scheduling passes while nothing has finished
    if again == 1:
        w.submit([None])
        n += 1
    if again == 2:
        w.pilot_state(0, rps.PMGR_ACTIVE)
        w.add([1])
    reach()
    info = w.s._pilots[PIDS[0]]['info']
    hwm  = int(cores * 200 / 100)
    used = 0
    for uid, pid, role, pstate, u, h, _ in w.fwd:
        pass
    # replay the assignment order: before each assignment used < hwm
    for i, f in enumerate(w.fwd):
        if f[1] != PIDS[0]: continue
        check(used < hwm, 'task %s assigned with used=%s >= hwm=%s',
              f[0], used, hwm)
        used += 2
    check(info['used'] == used, 'usage figure %s, assigned cores %s',
          info['used'], used)
    w.check_all()
    state = [rps.AGENT_STAGING_OUTPUT_PENDING, rps.DONE, rps.FAILED][fin]
    w.finish_tasks(0, state)
    if dup:
        w.finish_tasks(0, state)
    # freed capacity is back-filled from the wait pool: finish those as well
    for _ in range(n):
        w.finish_tasks(0, state)
    check(info['used'] == 0 or w.waiting('t%d' % (n - 1)),
          'usage figure is %s after all tasks finished', info['used'])
    if len(w.fwd) == n:
        check(info['used'] == 0, 'all %s tasks finished but usage is %s', n,
              info['used'])
    w.check_all()


# ------------------------------------------------------------------------------
@obligation(params={'named_first': 'bool', 'n_unnamed': (1, 2), 'fin': (0, 2),
                    'early': 'bool'},
            timeout={'quick': 200, 'thorough': 400},
            funcs=['radical/pilot/tmgr/scheduler/backfilling.py:'
                   'Backfilling.update_tasks'] + FUNCS_B,
            bounds='Backfilling, pilot p1: a task naming p1 and 1..2 unnamed '
                   'tasks in one batch (either order), submitted before (early '
                   'binding) or after the pilot was added; all of them report '
                   'a finished state in one notification bulk')
def h_backfill_named(named_first, n_unnamed, fin, early):
    """early-bound tasks do not disturb the usage accounting"""
    n_unnamed, fin = conc(n_unnamed, 1, 2), conc(fin, 0, 2)
    w = World(1)
    batch = ([1] + [None] * n_unnamed) if named_first \
            else ([None] * n_unnamed + [1])
    if early:
        w.submit(batch)
    check(w.add([1]), 'add refused')
    w.pilot_state(1, rps.PMGR_ACTIVE)
    if not early:
        w.submit(batch)
    reach()
    w.check_all()
    state = [rps.AGENT_STAGING_OUTPUT_PENDING, rps.DONE, rps.FAILED][fin]
    w.finish_tasks(1, state)
    w.check_all()
    info = w.s._pilots[PIDS[1]]['info']
    check(info['used'] == 0, 'usage figure %s after all tasks finished',
          info['used'])


# ------------------------------------------------------------------------------
NOTES = [[], [rps.PMGR_ACTIVE], [rps.PMGR_ACTIVE, rps.DONE], [rps.FAILED],
         [rps.PMGR_ACTIVE, rps.FAILED], [rps.DONE, rps.PMGR_ACTIVE],
         [rps.PMGR_ACTIVE_PENDING]]


@obligation(params={'kind': (0, 1), 'pre': (0, 6), 'snap': (0, 2),
                    'readd': 'bool', 'post': (0, 2), 'early': 'bool'},
            partition={'quick': ('pre', 7), 'thorough': ('pre', 7)},
            timeout={'quick': 300, 'thorough': 600},
            funcs=FUNCS_B + ['radical/pilot/tmgr/scheduler/backfilling.py:'
                             'Backfilling._schedule_tasks'],
            bounds='one pilot; 0..2 state notifications arrive before the '
                   'add_pilots command (7 sequences incl. out of order and '
                   'final ones); the command carries a snapshot of the pilot in '
                   'state LAUNCHING / ACTIVE_PENDING / ACTIVE (possibly stale); '
                   'optionally the pilot is removed and added again; 0..1 '
                   'notification afterwards (ACTIVE / DONE); one unnamed task '
                   'submitted before everything or at the end')
def h_stale_add(kind, pre, snap, readd, post, early):
    """what the scheduler was told about a pilot is not forgotten on add"""
    kind, pre, snap = conc(kind, 0, 1), conc(pre, 0, 6), conc(snap, 0, 2)
    post = conc(post, 0, 2)
    w = World(kind)
    if early:
        w.submit([None])
    for st in NOTES[pre]:
        w.pilot_state(0, st)
    sn = [rps.PMGR_LAUNCHING, rps.PMGR_ACTIVE_PENDING, rps.PMGR_ACTIVE][snap]
    if not w.add([0], sn): return
    if readd:
        if not w.remove(0): return
        if not w.add([0], sn): return
    if post:
        w.pilot_state(0, [rps.PMGR_ACTIVE, rps.DONE][post - 1])
    if not early:
        w.submit([None])
    reach()
    w.check_all()
    if kind == 1:
        true = w.true_state.get(PIDS[0])
        if true == rps.PMGR_ACTIVE:
            check(len(w.fwd) == 1, 'pilot is ACTIVE and added but the task '
                  'waits (forwarded: %s)', w.fwd)
        for f in w.fwd:
            check(f[3] == rps.PMGR_ACTIVE, 'task forwarded to %s whose '
                  'furthest reported state was %s at that moment', f[1], f[3])
