"""
C13 - a dying pilot fails its own tasks and only those.

Real code: TaskManager._pilot_state_cb, Task._update, Task.as_dict.
"""

from vfw.api import obligation, check, reach, trace, real, conc
from harness.common import (rp, rps, rpc, TSTATES, PSTATES, N_T, N_P, FINAL,
                            mk_tmgr, add_task)

FUNCS = ['radical/pilot/task_manager.py:TaskManager._pilot_state_cb',
         'radical/pilot/task.py:Task._update',
         'radical/pilot/task.py:Task.as_dict']

META = {
    'explanation':
        'Bounded symbolic execution (CrossHair+z3) of the real '
        'TaskManager._pilot_state_cb with Task._update/as_dict: tasks with '
        'symbolic binding (none, p0, p1) and symbolic state (all 18), pilots '
        'ending in a symbolic order and final state; path tree exhausted per '
        'obligation.  The callback handles tasks independently, so the '
        '1-arbitrary-task + bystanders shape (quick) and the 2-arbitrary-task '
        'shape (thorough) cover the per-task case analysis completely; larger '
        'task counts are outside the bound.'}

PIDS = [None, 'pilot.0000', 'pilot.0001']


class FakePilot(object):
    def __init__(self, uid, state):
        self.uid   = uid
        self.state = state


def _verify(tm, pre, ended):
    # `pre`  : uid -> (pilot, state) before;  `ended`: ended pids in order
    published = {}
    for things, state, publish, push in tm.advanced:
        check(not push, 'final tasks must not be pushed')
        for d in things:
            published.setdefault(d['uid'], []).append(d)
    for uid, (pid, st) in pre.items():
        t = tm._tasks[uid]
        hit = pid is not None and pid in ended and st not in FINAL
        if hit:
            check(t.state == rps.FAILED, '%s bound to ended pilot %s in state '
                  '%s is %s, not FAILED' % (uid, pid, st, t.state))
            check(pid in str(t.exception_detail), '%s: explanation %r does not '
                  'name pilot %s' % (uid, t.exception_detail, pid))
            check(any(d['state'] == rps.FAILED for d in published.get(uid, [])),
                  '%s: FAILED state not reported' % uid)
        else:
            check(t.state == st, '%s (pilot %s, state %s) changed to %s '
                  'although pilot(s) %s ended' % (uid, pid, st, t.state, ended))
            check(all(d['state'] == st for d in published.get(uid, [])),
                  '%s: reported in state %s while it is %s'
                  % (uid, [d['state'] for d in published.get(uid, [])], st))


# ------------------------------------------------------------------------------
@obligation(params={'bind': (0, 2), 'ist': (0, N_T - 1), 'pfin': (5, 7),
                    'first': (1, 2), 'both': 'bool', 'svc': 'bool'},
            partition={'quick': ('ist', 9), 'thorough': ('ist', 18)},
            timeout={'quick': 200, 'thorough': 600},
            funcs=FUNCS,
            bounds='1 arbitrary task (binding x 18 states; an ordinary or a '
                   'service task) + 3 fixed bystanders '
                   '(running on p0, running on p1, unbound NEW); pilot p0/p1 '
                   'ends first in DONE/FAILED/CANCELED, optionally the other '
                   'pilot ends afterwards',
            stubs=['TaskManager.advance -> recorder', 'Pilot facade -> object '
                   'with uid/state', '_log no-op'])
def h_pilot_final(bind, ist, pfin, first, both, svc=False):
    """pilot(s) end: exactly the non-final tasks bound to them become FAILED"""
    tm  = mk_tmgr()
    pre = {'t0': (PIDS[bind], TSTATES[ist]),
           'b0': (PIDS[1], rps.AGENT_EXECUTING),
           'b1': (PIDS[2], rps.AGENT_SCHEDULING),
           'b2': (None,    rps.TMGR_SCHEDULING)}
    for uid, (pid, st) in pre.items():
        add_task(tm, uid, st, pilot=pid,
                 mode='task.service' if (svc and uid == 't0')
                      else 'task.executable')
    order = [PIDS[first]] + ([PIDS[3 - first]] if both else [])
    for pid in order:
        ret = real(tm._pilot_state_cb, [FakePilot(pid, PSTATES[pfin])])
        check(ret is True, 'callback unregistered itself')
    trace('pre', pre, 'ended', order,
          'post', {u: t.state for u, t in tm._tasks.items()})
    reach()
    _verify(tm, pre, order)


# ------------------------------------------------------------------------------
@obligation(params={'bind': (0, 2), 'ist': (0, N_T - 1), 'pst': (0, 4)},
            timeout={'quick': 200, 'thorough': 600},
            funcs=FUNCS,
            bounds='1 arbitrary task + 1 bystander; pilot p0 reports a '
                   'non-final state (5)')
def h_pilot_alive(bind, ist, pst):
    """a non-final pilot state notification changes no task"""
    tm  = mk_tmgr()
    pre = {'t0': (PIDS[bind], TSTATES[ist]),
           'b0': (PIDS[1], rps.AGENT_EXECUTING)}
    for uid, (pid, st) in pre.items():
        add_task(tm, uid, st, pilot=pid)
    real(tm._pilot_state_cb, FakePilot(PIDS[1], PSTATES[pst]))
    reach()
    _verify(tm, pre, [])


# ------------------------------------------------------------------------------
@obligation(params={'b0': (0, 2), 's0': (0, N_T - 1),
                    'b1': (0, 2), 's1': (0, N_T - 1), 'pfin': (5, 7)},
            shapes={'quick': [], 'thorough': [{}]},
            partition={'thorough': ('s0', 18)},
            timeout={'quick': 200, 'thorough': 1200},
            twins=[],
            funcs=FUNCS,
            bounds='2 arbitrary tasks (3 bindings x 18 states each), pilot p0 '
                   'ends in DONE/FAILED/CANCELED')
def h_two_tasks(b0, s0, b1, s1, pfin):
    """two arbitrary tasks, one pilot ends"""
    tm  = mk_tmgr()
    pre = {'t0': (PIDS[b0], TSTATES[s0]),
           't1': (PIDS[b1], TSTATES[s1])}
    for uid, (pid, st) in pre.items():
        add_task(tm, uid, st, pilot=pid)
    real(tm._pilot_state_cb, [FakePilot(PIDS[1], PSTATES[pfin])])
    reach()
    _verify(tm, pre, [PIDS[1]])


# ------------------------------------------------------------------------------
# through the public registration path: add_pilots -> Pilot.register_callback
# -> Pilot._update -> TaskManager._pilot_state_cb
#
from harness.common import FakeLock, FakeEvent                    # noqa: E402
from vfw.api import Null                                         # noqa: E402
from harness.c14 import mk_pilot_obj                              # noqa: E402
from harness.c15 import mk_pmgr                                   # noqa: E402


@obligation(params={'one_call': 'bool', 'swap': 'bool', 'ender': (1, 2),
                    'pfin': (5, 7), 'ist': (0, N_T - 1), 'pcur': (0, 4),
                    'via_pmgr': 'bool'},
            partition={'quick': ('ist', 6), 'thorough': ('ist', 18)},
            timeout={'quick': 200, 'thorough': 600},
            funcs=FUNCS + ['radical/pilot/task_manager.py:TaskManager.add_pilots',
                           'radical/pilot/pilot.py:Pilot.register_callback',
                           'radical/pilot/pilot.py:Pilot.attach_tmgr',
                           'radical/pilot/pilot.py:Pilot._update'],
            bounds='2 real Pilot objects added through TaskManager.add_pilots '
                   '(one call with a list, or two calls; either order); pilot '
                   'p0 or p1 then ends (DONE/FAILED/CANCELED) via Pilot._update, '
                   'or via a notification to PilotManager._state_sub_cb while '
                   'the client knows the pilot in any of the 5 non-final '
                   'states; '
                   '1 task per pilot, the one on the ending pilot in an '
                   'arbitrary state',
            stubs=['Pilot.as_dict -> constant dict', 'TaskManager.publish/'
                   'advance -> recorders'])
def h_add_pilots_end(one_call, swap, ender, pfin, ist, pcur, via_pmgr):
    """every added pilot's end is noticed and fails exactly its own tasks"""
    if not via_pmgr and pcur != 4: return
    pcur = conc(pcur, 0, 4)
    tm = mk_tmgr()
    tm.publish = lambda *a, **k: None
    pm = mk_pmgr()
    pm._pcb_lock  = FakeLock()
    pm._callbacks = {m: dict() for m in rpc.PMGR_METRICS}
    pm.advance    = lambda *a, **k: None
    pilots = []
    for pid in (PIDS[1], PIDS[2]):
        p = mk_pilot_obj(pm, pid, PSTATES[pcur])
        p._tmgr   = None
        p.as_dict = (lambda pid=pid: {'uid': pid, 'type': 'pilot',
                                      'state': rps.PMGR_ACTIVE})
        pm._pilots[pid] = p
        pilots.append(p)
    order = list(reversed(pilots)) if swap else list(pilots)
    if one_call:
        real(tm.add_pilots, order)
    else:
        for p in order:
            real(tm.add_pilots, p)
    epid = PIDS[ender]
    opid = PIDS[3 - ender]
    pre  = {'t0': (epid, TSTATES[ist]),
            'b0': (opid, rps.AGENT_EXECUTING)}
    for uid, (pid, st) in pre.items():
        add_task(tm, uid, st, pilot=pid)
    if via_pmgr:
        # the final state notification arrives at the pilot manager, whatever
        # state the client currently knows for the pilot
        try:
            pm._state_sub_cb(rpc.STATE_PUBSUB, {'cmd': 'update', 'arg': [
                {'type': 'pilot', 'uid': epid, 'state': PSTATES[pfin]}]})
        except Exception as e:
            trace('state cb raised', repr(e))
    else:
        real(pm._pilots[epid]._update, {'uid': epid, 'state': PSTATES[pfin]})
    reach()
    _verify(tm, pre, [epid])


# ------------------------------------------------------------------------------
# pilots which end because their PilotManager is closed while the TaskManager
# still has tasks on them
#
import radical.pilot.pilot_manager as m_pmgr                          # noqa: E402


@obligation(params={'ist': (0, N_T - 1), 'pcur': (0, 4), 'terminate': 'bool',
                    'two': 'bool'},
            partition={'quick': ('ist', 6), 'thorough': ('ist', 18)},
            timeout={'quick': 200, 'thorough': 600},
            funcs=FUNCS + ['radical/pilot/pilot_manager.py:PilotManager.close',
                           'radical/pilot/pilot_manager.py:'
                           'PilotManager._update_pilot',
                           'radical/pilot/pilot.py:Pilot._update'],
            bounds='1..2 pilots (known to the client in any non-final state) '
                   'added to a TaskManager, 1 task per pilot (the first in an '
                   'arbitrary state); PilotManager.close(terminate) runs: the '
                   'cancel request is answered with a CANCELED notification '
                   'per non-final pilot',
            stubs=['cancel_pilots -> CANCELED notifications through the real '
                   '_update_pilot', 'kill_pilots / component shutdown / dump '
                   '-> no-op'])
def h_pmgr_close(ist, pcur, terminate, two):
    """closing the pilot manager ends its pilots: their tasks are failed"""
    pcur = conc(pcur, 0, 4)
    tm = mk_tmgr()
    tm.publish = lambda *a, **k: None
    pm = mk_pmgr()
    pm._pcb_lock  = FakeLock()
    pm._callbacks = {m: dict() for m in rpc.PMGR_METRICS}
    pm.advance    = lambda *a, **k: None
    pm._closed    = False
    pm._rep       = Null()
    pm._log       = Null()
    pm._uid       = 'pmgr.0000'
    pm._cmgr      = Null()
    pm._terminate = FakeEvent()
    pm.dump       = lambda *a, **k: None
    pids = [PIDS[1], PIDS[2]] if two else [PIDS[1]]
    for pid in pids:
        p = mk_pilot_obj(pm, pid, PSTATES[pcur])
        p._tmgr   = None
        p.as_dict = (lambda pid=pid: {'uid': pid, 'type': 'pilot',
                                      'state': rps.PMGR_ACTIVE})
        pm._pilots[pid] = p
    real(tm.add_pilots, [pm._pilots[pid] for pid in pids])
    pre = {'t0': (pids[0], TSTATES[ist])}
    if two:
        pre['b0'] = (pids[1], rps.AGENT_EXECUTING)
    for uid, (pid, st) in pre.items():
        add_task(tm, uid, st, pilot=pid)
    ended = []
    def _cancel_pilots(uids=None, _timeout=None):
        # what the launcher answers: every non-final pilot ends CANCELED
        for pid in pids:
            if pm._pilots[pid].state not in rps.FINAL:
                ended.append(pid)
                pm._update_pilot({'type': 'pilot', 'uid': pid,
                                  'state': rps.CANCELED}, publish=True)
    pm.cancel_pilots = _cancel_pilots
    pm.kill_pilots   = lambda *a, **k: None
    base = m_pmgr.rpu.ClientComponent
    old  = base.__dict__.get('close')
    base.close = lambda self: None
    try:
        real(pm.close, terminate=terminate)
    finally:
        if old is None: del base.close
        else: base.close = old
    reach()
    trace('closed, terminate', terminate, 'ended', ended,
          'tasks', {u: t.state for u, t in tm._tasks.items()})
    check(pm._closed, 'pilot manager not closed')
    if terminate:
        check(sorted(ended) == sorted(pids), 'pilots %s not ended', pids)
    _verify(tm, pre, ended)
