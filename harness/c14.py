"""
C14 - pilot states move forward and end for the right reason.

P1: states._pilot_state_progress, PilotManager._state_sub_cb/_update_pilot/
    _call_pilot_callbacks, Pilot._update; tmgr scheduler _update_pilot_states.
P2: Agent_0._check_lifetime / stop / control_cb / _ctrl_cancel_pilots /
    finalize with a fake clock and in-memory killme.signal.
"""

import radical.utils as ru
import radical.pilot.agent.agent_0 as m_agent0
import radical.pilot.tmgr.scheduler.base as m_tsched

from vfw.api import obligation, check, reach, trace, real, Null, Recorder
from harness.common import (rp, rps, rpc, PSTATES, PVAL, N_P, FINAL,
                            FakeLock, FakeEvent)
from harness.c15 import mk_pmgr

META = {
    'explanation':
        'P1: inductive step over the client-side pilot state machine by '
        'bounded symbolic execution (CrossHair+z3) of the real '
        'PilotManager._state_sub_cb/_update_pilot/_call_pilot_callbacks and '
        'Pilot._update: arbitrary current state x two successive notifications '
        'with arbitrary states for a known or unknown pilot; the PILOT_STATE '
        'callback sequence is checked against the model.  P2: the real '
        'Agent_0 termination logic with start time, current time and run time '
        'as symbolic integers and a symbolic sequence of termination events; '
        'the state written to killme.signal and published is compared with the '
        'cause.',
    'assumes': ['bootstrap_0.sh (which forwards killme.signal) is outside the '
                'claim']}


def mk_pilot_obj(pm, uid, state):
    p = object.__new__(rp.Pilot)
    p._uid        = uid
    p._state      = state
    p._pmgr       = pm
    p._log        = Null()
    p._sub        = Recorder()
    p._pilot_dict = dict()
    p._cb_lock    = FakeLock()
    p._callbacks  = {m: dict() for m in rpc.PMGR_METRICS}
    return p


def _check_seq(cur, seq, new_state):
    """seq: states delivered to the callback; cur: state before"""
    prev = PVAL[cur]
    fin  = cur in FINAL
    for s in seq:
        v = PVAL[s]
        check(v >= prev, 'callback saw %s (value %d) after value %d'
              % (s, v, prev))
        if fin:
            check(s in FINAL, 'non-final state %s announced after a final '
                  'state' % s)
        if v > prev and s not in (rps.FAILED, rps.CANCELED):
            check(v == prev + 1, 'state %s announced after value %d: '
                  'intermediate states not filled in' % (s, prev))
        prev = v
        fin  = fin or s in FINAL
    check(PVAL[new_state] >= PVAL[cur], 'pilot state moved back %s -> %s'
          % (cur, new_state))
    if cur in FINAL:
        check(new_state in FINAL, 'final state %s left for %s'
              % (cur, new_state))


@obligation(params={'ic': (0, N_P - 1), 'i1': (0, N_P - 1), 'i2': (0, N_P - 1),
                    'known1': 'bool', 'known2': 'bool'},
            partition={'quick': ('ic', 8), 'thorough': ('ic', 8)},
            timeout={'quick': 200, 'thorough': 600},
            funcs=['radical/pilot/states.py:_pilot_state_progress',
                   'radical/pilot/pilot_manager.py:PilotManager._state_sub_cb',
                   'radical/pilot/pilot_manager.py:PilotManager._update_pilot',
                   'radical/pilot/pilot_manager.py:PilotManager._call_pilot_callbacks',
                   'radical/pilot/pilot.py:Pilot._update'],
            bounds='1 known pilot in an arbitrary state (8) + 2 successive '
                   'notification messages with arbitrary states (8 each), each '
                   'for the known or for an unknown pilot',
            stubs=['PilotManager.advance -> recorder', 'Pilot._sub -> recorder',
                   'locks no-op', '_log no-op'])
def h_pilot_notify(ic, i1, i2, known1, known2):
    """PILOT_STATE callbacks only move forward; unknown pilots are ignored"""
    pm  = mk_pmgr()
    pm._pcb_lock  = FakeLock()
    pm._callbacks = {m: dict() for m in rpc.PMGR_METRICS}
    pm.advance    = lambda *a, **k: None
    cur = PSTATES[ic]
    p   = mk_pilot_obj(pm, 'pilot.0000', cur)
    pm._pilots['pilot.0000'] = p
    seen = []
    def cb(pilot, state):
        seen.append((pilot.uid, state, pilot.state))
    pm._callbacks[rpc.PILOT_STATE]['cb'] = {'cb': cb, 'cb_data': None}

    for known, i in ((known1, i1), (known2, i2)):
        uid = 'pilot.0000' if known else 'pilot.9999'
        msg = {'cmd': 'update', 'arg': [{'type': 'pilot', 'uid': uid,
                                         'state': PSTATES[i]}]}
        n0 = len(seen)
        before = p.state
        try:
            pm._state_sub_cb(rpc.STATE_PUBSUB, msg)
        except (ValueError, RuntimeError) as e:
            # a contradictory notification may be refused ...
            trace('refused', repr(e))
        if not known:
            check(len(seen) == n0, 'callback for unknown pilot: %s' % seen[n0:])
        elif before not in FINAL and PSTATES[i] in FINAL:
            # the pilot ends for the reason it was told: the final state is
            # the notified one, whatever intermediate states were skipped
            check(p.state == PSTATES[i], 'pilot in %s was notified %s and '
                  'ends in %s', before, PSTATES[i], p.state)
            check(seen[n0:] and seen[-1][1] == PSTATES[i], 'pilot in %s was '
                  'notified %s, the application was told %s', before,
                  PSTATES[i], [x[1] for x in seen[n0:]])
    reach()
    trace('cur', cur, 'notified', PSTATES[i1], PSTATES[i2], 'seen', seen,
          'state', p.state)
    check(all(u == 'pilot.0000' for u, _, _ in seen), 'callback for unknown')
    for u, s, ps in seen:
        check(s == ps, 'callback state %s != pilot.state %s' % (s, ps))
    _check_seq(cur, [s for _, s, _ in seen], p.state)
    # a forward notification for the known pilot is applied
    last = cur
    for known, i in ((known1, i1), (known2, i2)):
        if known and PVAL[PSTATES[i]] > PVAL[last]:
            last = PSTATES[i]
    if PVAL[last] > PVAL[cur]:
        check(p.state == last or (PVAL[p.state] == PVAL[last]),
              'forward notification %s left pilot in %s' % (last, p.state))


# ------------------------------------------------------------------------------
@obligation(params={'ic': (0, N_P), 'i1': (0, N_P - 1), 'i2': (0, N_P - 1)},
            timeout={'quick': 200, 'thorough': 600},
            funcs=['radical/pilot/tmgr/scheduler/base.py:'
                   'TMGRSchedulingComponent._update_pilot_states'],
            bounds='tmgr scheduler view of one pilot: arbitrary current state '
                   '(8 or unknown) x 2 notifications (8 each)')
def h_tsched_pilot_states(ic, i1, i2):
    """the tmgr scheduler's view of a pilot never moves backwards"""
    sc = object.__new__(m_tsched.TMGRSchedulingComponent)
    sc._log         = Null()
    sc._pilots_lock = FakeLock()
    sc._pilots      = {}
    updated         = []
    sc.update_pilots = lambda pids: updated.append(list(pids))
    cur = None
    if ic < N_P:
        cur = PSTATES[ic]
        sc._pilots['p0'] = {'role': None, 'state': cur, 'pilot': None,
                            'info': {}}
    prev = cur
    for i in (i1, i2):
        try:
            sc._update_pilot_states([{'type': 'pilot', 'uid': 'p0',
                                      'state': PSTATES[i]}])
        except ValueError as e:
            trace('refused', repr(e))
        now = sc._pilots['p0']['state']
        pv  = -1 if prev is None else PVAL[prev]
        check(now is not None or prev is None, 'state lost')
        nv  = -1 if now is None else PVAL[now]
        check(nv >= pv, 'scheduler view moved back: %s -> %s' % (prev, now))
        if prev in FINAL:
            check(now in FINAL, 'final %s left for %s' % (prev, now))
        if PVAL[PSTATES[i]] > pv:
            check(now == PSTATES[i], 'forward notification %s not applied: %s'
                  % (PSTATES[i], now))
        prev = now
    reach()


# ------------------------------------------------------------------------------
# P2: cause -> final state
#
class FakeFile(object):
    def __init__(self, store, name): self.store, self.name = store, name
    def __enter__(self): return self
    def __exit__(self, *a): return False
    def write(self, data): self.store.setdefault(self.name, []).append(data)
    def read(self, n=-1): return ''


class FakeTime(object):
    def __init__(self, now): self.now = now
    def time(self): return self.now
    def sleep(self, d): pass


EV_NONE, EV_LIFETIME, EV_CANCEL_ME, EV_CANCEL_OTHER, EV_TERMINATE = range(5)


def mk_agent0(start, runtime):
    a = object.__new__(m_agent0.Agent_0)
    a._uid         = 'agent.0'
    a._pid         = 'pilot.0000'
    a._pmgr        = 'pmgr.0000'
    a._log         = Null()
    a._prof        = Null()
    a._term        = FakeEvent()
    a._session     = Recorder()
    a._rm          = Recorder()
    a._cfg         = ru.Config(from_dict={'runtime': runtime})
    a._starttime   = start
    a._final_cause = None
    a.published    = []
    a.advanced     = []
    a.publish      = lambda ch, msg, **k: a.published.append((ch, msg))
    a.advance      = lambda things, state=None, **k: a.advanced.append(things)
    a.stage_output = lambda: None
    return a


@obligation(params={'start': (0, 10 ** 9), 'runtime': (0, 10 ** 5),
                    'dt1': (0, 10 ** 8), 'dt2': (0, 10 ** 8),
                    'e1': (0, 4), 'e2': (0, 4)},
            partition={'quick': ('e1', 5), 'thorough': ('e1', 5)},
            timeout={'quick': 200, 'thorough': 600},
            funcs=['radical/pilot/agent/agent_0.py:Agent_0._check_lifetime',
                   'radical/pilot/agent/agent_0.py:Agent_0.stop',
                   'radical/pilot/agent/agent_0.py:Agent_0.control_cb',
                   'radical/pilot/agent/agent_0.py:Agent_0._ctrl_cancel_pilots',
                   'radical/pilot/agent/agent_0.py:Agent_0.finalize',
                   'radical/pilot/utils/component.py:BaseComponent._control_cb',
                   'radical/pilot/utils/component.py:BaseComponent.stop'],
            bounds='start time, run time (minutes), elapsed seconds at two '
                   'events: symbolic integers; two events from {none, lifetime '
                   'check, cancel naming this pilot, cancel naming another '
                   'pilot, terminate command}; the first event that stops the '
                   'agent ends the sequence; then finalize()',
            stubs=['time -> fake clock', 'ru.ru_open -> in-memory file',
                   'rpu.get_rusage -> constant', 'session/rm/publish/advance -> '
                   'recorders', 'stage_output -> no-op'])
def h_agent_final_cause(start, runtime, dt1, dt2, e1, e2):
    """killme.signal / published final state follow the termination cause"""
    if dt2 < dt1: return
    a     = mk_agent0(start, runtime)
    files = {}
    clock = FakeTime(start)
    m_agent0.time = clock
    saved = ru.ru_open
    expected = None
    try:
        ru.ru_open = lambda name, mode='r', *a_, **k: FakeFile(files, name)
        m_agent0.rpu.get_rusage = lambda: ''
        for ev, dt in ((e1, dt1), (e2, dt2)):
            if a._term.is_set():
                break
            clock.now = start + dt
            if ev == EV_LIFETIME:
                alive = real(a._check_lifetime)
                reached = runtime > 0 and dt >= runtime * 60
                check(alive == (not reached), 'lifetime check returned %s with '
                      'elapsed=%ss runtime=%smin', alive, dt, runtime)
                if reached and expected is None:
                    expected = rps.DONE
            elif ev == EV_CANCEL_ME:
                real(a._control_cb, rpc.CONTROL_PUBSUB,
                     {'cmd': 'cancel_pilots',
                      'arg': {'uids': ['pilot.0001', 'pilot.0000']}})
                if expected is None: expected = rps.CANCELED
            elif ev == EV_CANCEL_OTHER:
                real(a._control_cb, rpc.CONTROL_PUBSUB,
                     {'cmd': 'cancel_pilots', 'arg': {'uids': ['pilot.0001']}})
                check(not a._term.is_set(), 'cancel for another pilot stopped '
                      'this agent')
            elif ev == EV_TERMINATE:
                real(a._control_cb, rpc.CONTROL_PUBSUB,
                     {'cmd': 'terminate', 'arg': None})
                if expected is None: expected = rps.CANCELED
            if expected is not None:
                check(a._term.is_set(), 'agent not stopped after event %d', ev)
        # agent main loop ends (stopped, or a component failed) -> finalize
        if expected is None:
            expected = rps.FAILED
        real(a.finalize)
    finally:
        ru.ru_open = saved
    reach()
    written = ''.join(files.get('./killme.signal', [])).strip()
    trace('events', (e1, dt1), (e2, dt2), 'runtime', runtime,
          'cause', a._final_cause, 'killme', written)
    check(written == expected, 'killme.signal says %r, expected %s (events %s '
          'at +%ss, %s at +%ss, runtime %s min)',
          written, expected, e1, dt1, e2, dt2, runtime)
    pubs = [t for adv in a.advanced for t in (adv if isinstance(adv, list)
                                              else [adv])]
    check(len(pubs) == 1 and pubs[0]['state'] == expected
          and pubs[0]['uid'] == 'pilot.0000',
          'published final pilot state %s, expected %s', pubs, expected)


# ------------------------------------------------------------------------------
# two threads deliver notifications for the same pilot (control thread:
# pilot_activate, state thread: state updates): PilotManager._update_pilot as
# coroutines under a symbolic schedule
#
from vfw import coro as C                                         # noqa: E402
from vfw.api import conc                                          # noqa: E402
import radical.pilot.pilot_manager as m_pmgr                      # noqa: E402

PM_NAMES  = ['_update_pilot']
PM_SHARED = ['self._pilots', '._update(', 'self.advance(',
             '_pilot_state_progress', 'pilot_dict[']
PMCORO, PMCORO_INFO = C.make_coros(m_pmgr.PilotManager, PM_NAMES, PM_SHARED)

INIT2 = [0, 2, 3]            # NEW, PMGR_LAUNCHING, PMGR_ACTIVE_PENDING
NOTE2 = [3, 4, 5, 7]         # ACTIVE_PENDING, ACTIVE, DONE, CANCELED


@obligation(params={'ic': (0, 2), 'n1': (0, 3), 'n2': (0, 3), 'sw1': (0, 16),
                    'sw2': (0, 16)},
            shapes={'quick': [{'B': 1}], 'thorough': [{'B': 2}]},
            partition={'quick': ('sw1', 17), 'thorough': ('sw1', 17)},
            timeout={'quick': 300, 'thorough': 900},
            funcs=['radical/pilot/pilot_manager.py:PilotManager._update_pilot',
                   'radical/pilot/pilot.py:Pilot._update',
                   'radical/pilot/states.py:_pilot_state_progress'],
            bounds='one pilot in NEW / PMGR_LAUNCHING / PMGR_ACTIVE_PENDING; '
                   'two threads each deliver one notification (ACTIVE_PENDING, '
                   'ACTIVE, DONE or CANCELED) through _update_pilot; <= B '
                   'pre-emptions at the first 16 yield points',
            stubs=['_pilots_lock -> cooperative lock', 'advance -> no-op'])
def h_pilot_notify_threads(ic, n1, n2, sw1, sw2, B=1):
    """concurrent notifications never move the pilot backwards"""
    if B < 2 and sw2: return
    if sw2 and sw2 < sw1: return
    ic, n1, n2 = conc(ic, 0, 2), conc(n1, 0, 3), conc(n2, 0, 3)
    sw = [x for x in (conc(sw1, 0, 16), conc(sw2, 0, 16)) if x]
    pm = mk_pmgr()
    pm._pilots_lock = C.CoopLock('_pilots_lock')
    pm._pcb_lock    = FakeLock()
    pm._callbacks   = {m: dict() for m in rpc.PMGR_METRICS}
    pm.advance      = lambda *a, **k: None
    cur = PSTATES[INIT2[ic]]
    p   = mk_pilot_obj(pm, 'pilot.0000', cur)
    pm._pilots['pilot.0000'] = p
    seen = []
    pm._callbacks[rpc.PILOT_STATE]['cb'] = {
        'cb': lambda pilot, state: seen.append(state), 'cb_data': None}
    errs = []
    def thread(st):
        try:
            yield from PMCORO['_update_pilot'](
                pm, {'type': 'pilot', 'uid': 'pilot.0000', 'state': st})
        except (ValueError, RuntimeError) as e:
            errs.append(repr(e))        # a contradictory update was refused
    sch = C.Coop([('control', thread(PSTATES[NOTE2[n1]])),
                  ('state',   thread(PSTATES[NOTE2[n2]]))], switch_at=sw)
    sch.run()
    reach()
    trace('cur', cur, 'notes', PSTATES[NOTE2[n1]], PSTATES[NOTE2[n2]],
          'seen', seen, 'state', p.state, 'errs', errs, 'schedule', sch.log)
    _check_seq(cur, seen, p.state)
    hi = max(PVAL[cur], PVAL[PSTATES[NOTE2[n1]]], PVAL[PSTATES[NOTE2[n2]]])
    if not errs:
        check(PVAL[p.state] == hi, 'pilot ends in %s although %s and %s were '
              'notified', p.state, PSTATES[NOTE2[n1]], PSTATES[NOTE2[n2]])


# ------------------------------------------------------------------------------
# P4: the launcher component tells the truth per pilot: a failed submission to
# one resource fails the pilots of that bucket only
#
import radical.pilot.pmgr.launching.base as m_plb                  # noqa: E402

BUCKETS = [('r0', 'local'), ('r0', 'ssh'), ('r1', 'local')]


@obligation(params={'b0': (0, 2), 'b1': (0, 2), 'b2': (0, 2), 'n': (1, 3),
                    'failmask': (0, 7), 'cancelled': (0, 3)},
            partition={'quick': ('failmask', 8), 'thorough': ('failmask', 8)},
            timeout={'quick': 200, 'thorough': 400},
            funcs=['radical/pilot/pmgr/launching/base.py:'
                   'PMGRLaunchingComponent.work'],
            bounds='1..3 pilots submitted in one call, each for one of 3 '
                   '(resource, access schema) buckets; submission to any '
                   'subset of the buckets fails; optionally one pilot was '
                   'cancelled before the call',
            stubs=['_start_pilot_bulk -> raises for the failing buckets',
                   'advance -> recorder'])
def h_launch_buckets(b0, b1, b2, n, failmask, cancelled):
    """each pilot is reported LAUNCHING, then ACTIVE_PENDING or FAILED
    according to what happened to its own submission"""
    n, failmask, cancelled = conc(n, 1, 3), conc(failmask, 0, 7), \
                             conc(cancelled, 0, 3)
    bs = [conc(b0, 0, 2), conc(b1, 0, 2), conc(b2, 0, 2)][:n]
    if cancelled > n: return
    c = object.__new__(m_plb.PMGRLaunchingComponent)
    c._uid, c._log, c._prof = 'pmgr_launching.0000', Null(), Null()
    c._cancelled = ['pilot.%04d' % (cancelled - 1)] if cancelled else []
    adv = []
    def _advance(things, state=None, publish=True, push=False, **kw):
        for t in ru.as_list(things):
            adv.append((t['uid'], state))
    c.advance = _advance
    started = []
    def _start(resource, schema, pilots):
        started.append((resource, schema, [p['uid'] for p in pilots]))
        if (failmask >> BUCKETS.index((resource, schema))) & 1:
            raise RuntimeError('submission to %s failed' % resource)
    c._start_pilot_bulk = _start
    pilots = [{'uid': 'pilot.%04d' % i, 'type': 'pilot', 'state': rps.NEW,
               'description': {'resource': BUCKETS[b][0],
                               'access_schema': BUCKETS[b][1]}}
              for i, b in enumerate(bs)]
    real(c.work, pilots)
    reach()
    trace('buckets', bs, 'failmask', failmask, 'cancelled', c._cancelled,
          'advanced', adv, 'started', started)
    for i, b in enumerate(bs):
        uid  = 'pilot.%04d' % i
        mine = [s for u, s in adv if u == uid]
        if uid in c._cancelled:
            check(mine == [rps.CANCELED], 'cancelled pilot %s reported %s',
                  uid, mine)
            check(not any(uid in x[2] for x in started), 'cancelled pilot %s '
                  'was submitted', uid)
            continue
        want = rps.FAILED if (failmask >> b) & 1 else rps.PMGR_ACTIVE_PENDING
        check(mine == [rps.PMGR_LAUNCHING, want], 'pilot %s (bucket %s, '
              'submission %s) reported %s', uid, BUCKETS[b],
              'failed' if want == rps.FAILED else 'ok', mine)
        check(sum(1 for x in started if uid in x[2]) == 1, 'pilot %s '
              'submitted %s times', uid,
              sum(1 for x in started if uid in x[2]))
