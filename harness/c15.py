"""
C15 - waiting on tasks and pilots returns when it should.

Real code: Task.wait, Pilot.wait, TaskManager.wait_tasks,
PilotManager.wait_pilots; `time` in their modules is replaced by a fake clock
whose sleep() lets the environment apply the next element of a symbolic state
trajectory.
"""

import radical.pilot.task          as m_task
import radical.pilot.pilot         as m_pilot
import radical.pilot.task_manager  as m_tmgr
import radical.pilot.pilot_manager as m_pmgr

from vfw.api import obligation, check, reach, trace, Null
from harness.common import (rp, rps, FINAL, TVAL, PVAL, mk_tmgr, mk_task,
                            FakeEvent, FakeLock)

META = {
    'explanation':
        'Bounded symbolic execution (CrossHair+z3) of the real wait loops with '
        'time.time/time.sleep of the module under test replaced by a fake '
        'clock: every sleep advances virtual time by one poll interval and '
        'applies the next element of a symbolic monotone state trajectory.  '
        'The time-out is a symbolic integer number of poll intervals.  A path '
        'that exhausts its fuel (trajectory length + max time-out + 3 polls) '
        'after the awaited condition became true is the violation "did not '
        'return".',
    'assumes': ['a Python statement is atomic; the waited-on state changes '
                'only while the waiter sleeps (poll granularity)',
                'time-outs are >= 1 poll interval (timeout=0 means "no '
                'time-out" in this code base and is not exercised)']}

# representative states (model order); the loops only test membership in the
# requested set / FINAL and (wait_tasks) compare model values
TASK_R  = [rps.NEW, rps.AGENT_SCHEDULING, rps.AGENT_EXECUTING,
           rps.TMGR_STAGING_OUTPUT, rps.DONE, rps.FAILED, rps.CANCELED]
PILOT_R = [rps.NEW, rps.PMGR_LAUNCHING, rps.PMGR_ACTIVE_PENDING,
           rps.PMGR_ACTIVE, rps.DONE, rps.FAILED, rps.CANCELED]
NR      = 7
NFIN    = 4      # index of first final state in both tables


def _req(table, k):
    # requested-state argument: 0 None, 1 [], 2..8 single name, 9.. lists
    if k == 0: return None
    if k == 1: return []
    if k <= 8: return table[k - 2]
    if k == 9: return [table[2], table[4]]
    if k == 10: return [table[5]]
    if k == 11: return [table[4], table[6]]
    # two non-final states listed later-first (and, for tasks, with the later
    # one sorting first alphabetically): the earliest one counts
    return [table[2], table[1]]


N_REQ = 13


def _req_set(table, k):
    r = _req(table, k)
    if not r: return list(FINAL)
    if isinstance(r, list): return r
    return [r]


class OutOfFuel(Exception):
    pass


class Clock(object):
    """fake `time` module: one unit = one poll interval (0.1 s)"""
    def __init__(self, fuel, on_sleep):
        self.now      = 1000
        self.fuel     = fuel
        self.polls    = 0
        self.on_sleep = on_sleep
    def time(self):
        return self.now
    def sleep(self, d):
        self.polls += 1
        if self.polls > self.fuel:
            raise OutOfFuel()
        self.now += 1
        self.on_sleep(self.polls)


def _valid_traj(idx):
    # monotone in the table; a final state is never left
    for a, b in zip(idx, idx[1:]):
        if b < a: return False
        if a >= NFIN and b != a: return False
    return True


def _satisfied(state, req_states, by_value, val):
    # the awaited condition of the property: in a requested state, or final
    if state in FINAL: return True
    if by_value:
        return val[state] >= min(val[s] for s in req_states)
    return state in req_states


def _run_single(mod, ent, table, val, traj, kreq, tmo, call):
    """ent: entity with _state; traj: list of table indices (initial first)"""
    req_states = _req_set(table, kreq)
    ent._state = table[traj[0]]
    sat_at     = [None]     # poll count at which awaited condition first held

    def on_sleep(polls):
        if polls < len(traj):
            ent._state = table[traj[polls]]
        if sat_at[0] is None and _satisfied(ent._state, req_states, False, val):
            sat_at[0] = polls

    fuel  = len(traj) + 4 + 3
    clock = Clock(fuel, on_sleep)
    mod.time = clock
    if _satisfied(ent._state, req_states, False, val):
        sat_at[0] = 0
    timeout = None if tmo == 0 else tmo
    try:
        ret = call(_req(table, kreq), timeout)
    except OutOfFuel:
        # fine only if nothing obliged the call to return
        check(sat_at[0] is None, 'wait(state=%r) did not return although the '
              'entity was in %s (requested or final) since poll %s'
              % (_req(table, kreq), ent._state, sat_at[0]))
        check(timeout is None, 'wait(timeout=%s polls) did not return after %d '
              'polls' % (timeout, clock.polls))
        return None
    reach()
    trace('traj', [table[i] for i in traj], 'req', _req(table, kreq),
          'tmo', timeout, 'ret', ret, 'polls', clock.polls)
    # (c) returned state is the actual state
    check(ret == ent._state, 'wait returned %r but the state is %s'
          % (ret, ent._state))
    # (a)/(b) promptness
    if sat_at[0] is not None:
        check(clock.polls <= sat_at[0] + 2, 'returned at poll %d, condition '
              'held since poll %d' % (clock.polls, sat_at[0]))
    elif timeout is not None:
        check(clock.polls <= timeout + 2, 'returned at poll %d, timeout %d'
              % (clock.polls, timeout))
    # no early return claiming success
    if sat_at[0] is None:
        check(timeout is not None and clock.polls >= timeout,
              'returned at poll %d (timeout %s) although state %s is neither '
              'requested nor final' % (clock.polls, timeout, ent._state))
    return ret


_SINGLE = dict(
    params={'kreq': (0, N_REQ - 1), 's0': (0, NR - 1), 's1': (0, NR - 1),
            's2': (0, NR - 1), 'tmo': (0, 4)},
    partition={'quick': ('kreq', 7), 'thorough': ('kreq', 13)},
    shapes={'quick': [{'n': 2}], 'thorough': [{'n': 3}]},
    timeout={'quick': 200, 'thorough': 900},
    bounds='requested state argument from 13 forms (None, [], 7 single '
           'states, 4 lists); trajectory of n states over a 7-state '
           'representative table, monotone; timeout None or 1..4 poll '
           'intervals (symbolic)',
    stubs=['time module of the module under test -> fake clock',
           '_log/_rep no-op', 'manager._terminate -> never set'])


@obligation(funcs=['radical/pilot/task.py:Task.wait'], **_SINGLE)
def h_task_wait(kreq, s0, s1, s2, tmo, n=2):
    """Task.wait returns promptly with the task's actual state"""
    traj = [s0, s1, s2][:n]
    if not _valid_traj(traj): return
    if n < 3 and s2 != 0: return
    tm = mk_tmgr()
    t  = mk_task(tm, 't0', rps.NEW)
    _run_single(m_task, t, TASK_R, TVAL, traj, kreq, tmo,
                lambda st, to: t.wait(state=st, timeout=to))


def mk_pilot(pmgr, uid, state):
    p = object.__new__(rp.Pilot)
    p._uid   = uid
    p._state = state
    p._pmgr  = pmgr
    p._log   = Null()
    return p


def mk_pmgr():
    pm = object.__new__(rp.PilotManager)
    pm._uid         = 'pmgr.0000'
    pm._log         = Null()
    pm._rep         = Null()
    pm._prof        = Null()
    pm._pilots      = dict()
    pm._pilots_lock = FakeLock()
    pm._terminate   = FakeEvent()
    return pm


@obligation(funcs=['radical/pilot/pilot.py:Pilot.wait'], **_SINGLE)
def h_pilot_wait(kreq, s0, s1, s2, tmo, n=2):
    """Pilot.wait returns promptly with the pilot's actual state"""
    traj = [s0, s1, s2][:n]
    if not _valid_traj(traj): return
    if n < 3 and s2 != 0: return
    pm = mk_pmgr()
    p  = mk_pilot(pm, 'pilot.0000', rps.NEW)
    _run_single(m_pilot, p, PILOT_R, PVAL, traj, kreq, tmo,
                lambda st, to: p.wait(state=st, timeout=to))


# ------------------------------------------------------------------------------
# manager level: two entities, the second one with its own short trajectory
#
def _run_multi(mod, ents, table, val, trajs, kreq, tmo, call, by_value,
               drop_final_at_start=False):
    req_states = _req_set(table, kreq)
    for e, tr in zip(ents, trajs):
        e._state = table[tr[0]]
    awaited = list(ents)
    if drop_final_at_start:
        awaited = [e for e in ents if e._state not in FINAL]
    sat_at = [None]
    seen   = [False for e in awaited]   # sticky: entity was observed satisfied

    def all_sat():
        # the managers stop watching an entity once it was seen in a requested
        # (or final) state: "has reached" is sticky per entity
        for i, e in enumerate(awaited):
            if _satisfied(e._state, req_states, by_value, val):
                seen[i] = True
        return all(seen)

    def on_sleep(polls):
        for e, tr in zip(ents, trajs):
            if polls < len(tr):
                e._state = table[tr[polls]]
        if sat_at[0] is None and all_sat():
            sat_at[0] = polls

    n     = max(len(tr) for tr in trajs)
    clock = Clock(n + 4 + 3, on_sleep)
    mod.time = clock
    # a manager may delegate to the entities' own wait(): same virtual clock
    m_task.time = m_pilot.time = clock
    if all_sat():
        sat_at[0] = 0
    timeout = None if tmo == 0 else tmo
    try:
        ret = call(_req(table, kreq), timeout)
    except OutOfFuel:
        check(sat_at[0] is None, 'wait did not return although every awaited '
              'entity was in a requested or final state since poll %s: %s'
              % (sat_at[0], [e._state for e in ents]))
        check(timeout is None, 'wait(timeout=%s polls) did not return after '
              '%d polls' % (timeout, clock.polls))
        return
    reach()
    trace('states', [e._state for e in ents], 'req', _req(table, kreq),
          'tmo', timeout, 'ret', ret, 'polls', clock.polls)
    return ret, clock, sat_at[0], timeout


def _check_multi(ret_states, ents, clock, sat, timeout):
    check(list(ret_states) == [e._state for e in ents],
          'returned %s, actual states %s' % (ret_states,
                                             [e._state for e in ents]))
    if sat is not None:
        check(clock.polls <= sat + 2, 'returned at poll %d, condition held '
              'since poll %d' % (clock.polls, sat))
    elif timeout is not None:
        check(clock.polls <= timeout + 1, 'returned at poll %d, timeout %d'
              % (clock.polls, timeout))
    if sat is None:
        check(timeout is not None and clock.polls >= timeout,
              'returned at poll %d (timeout %s) although not every awaited '
              'entity is in a requested/final state: %s'
              % (clock.polls, timeout, [e._state for e in ents]))


_MULTI = dict(
    params={'kreq': (0, N_REQ - 1), 'a0': (0, NR - 1), 'a1': (0, NR - 1),
            'b0': (0, NR - 1), 'b1': (0, NR - 1), 'tmo': (0, 3),
            'form': (0, 2)},
    partition={'quick': ('kreq', 13), 'thorough': ('kreq', 13)},
    shapes={'quick': [{'bfix': True, 'tmax': 2, 'skip': [3, 5, 8]}],
            'thorough': [{'bfix': False}]},
    timeout={'quick': 300, 'thorough': 1800},
    bounds='2 entities; entity A: trajectory of 2 states over the 7-state '
           'table; entity B: quick: fixed trajectories chosen by b0 in {stay '
           'non-final, reach DONE at poll 1, final from the start}, thorough: '
           'arbitrary 2-state trajectory; uids argument form: None / single '
           'uid / list of both; quick: timeout <= 2 polls and 10 of the 13 '
           'requested-state forms',
    stubs=_SINGLE['stubs'])

_BFIX = [[2, 2], [2, 4], [5, 5]]


def _multi_args(a0, a1, b0, b1, bfix, kreq, tmo, form, tmax, skip):
    if tmo > tmax or kreq in skip: return None
    if form == 1 and (b0 or b1): return None     # B is not awaited
    ta = [a0, a1]
    if bfix:
        if b0 > 2 or b1 != 0: return None
        tb = _BFIX[b0]
    else:
        tb = [b0, b1]
    if not _valid_traj(ta) or not _valid_traj(tb): return None
    return ta, tb


@obligation(funcs=['radical/pilot/task_manager.py:TaskManager.wait_tasks'],
            **_MULTI)
def h_wait_tasks(kreq, a0, a1, b0, b1, tmo, form, bfix=True, tmax=3, skip=()):
    """TaskManager.wait_tasks returns promptly with the tasks' actual states"""
    tr = _multi_args(a0, a1, b0, b1, bfix, kreq, tmo, form, tmax, skip)
    if tr is None: return
    tm = mk_tmgr()
    ta = mk_task(tm, 't0', rps.NEW)
    tb = mk_task(tm, 't1', rps.NEW)
    tm._tasks = {'t0': ta, 't1': tb}
    ents  = [ta, tb] if form != 1 else [ta]
    trajs = list(tr)  if form != 1 else [tr[0]]
    uids  = None if form == 0 else 't0' if form == 1 else ['t0', 't1']
    out = _run_multi(m_tmgr, ents, TASK_R, TVAL, trajs, kreq, tmo,
                     lambda st, to: tm.wait_tasks(uids=uids, state=st,
                                                  timeout=to), by_value=True)
    if out is None: return
    ret, clock, sat, timeout = out
    if form == 1:
        check(not isinstance(ret, list), 'single uid must return one state')
        ret = [ret]
    _check_multi(ret, ents, clock, sat, timeout)


@obligation(funcs=['radical/pilot/pilot_manager.py:PilotManager.wait_pilots'],
            **_MULTI)
def h_wait_pilots(kreq, a0, a1, b0, b1, tmo, form, bfix=True, tmax=3, skip=()):
    """PilotManager.wait_pilots returns promptly with the actual states"""
    tr = _multi_args(a0, a1, b0, b1, bfix, kreq, tmo, form, tmax, skip)
    if tr is None: return
    pm = mk_pmgr()
    pa = mk_pilot(pm, 'p0', rps.NEW)
    pb = mk_pilot(pm, 'p1', rps.NEW)
    pm._pilots = {'p0': pa, 'p1': pb}
    ents  = [pa, pb] if form != 1 else [pa]
    trajs = list(tr)  if form != 1 else [tr[0]]
    uids  = None if form == 0 else 'p0' if form == 1 else ['p0', 'p1']
    out = _run_multi(m_pmgr, ents, PILOT_R, PVAL, trajs, kreq, tmo,
                     lambda st, to: pm.wait_pilots(uids=uids, state=st,
                                                   timeout=to),
                     by_value=False, drop_final_at_start=(form == 0))
    if out is None: return
    ret, clock, sat, timeout = out
    if form == 0:
        # uids=None waits for (and reports) the pilots not final at call time
        ents = [e for e, t in zip(ents, trajs) if t[0] < NFIN]
    if form == 1:
        check(not isinstance(ret, list), 'single uid must return one state')
        ret = [ret]
    _check_multi(ret, ents, clock, sat, timeout)
