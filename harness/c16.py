"""
C16 - client and agents exchange each forwarded message exactly once.

Real code: Session._crosswire_proxy / crosswire_pubsub (the pubsub_fwd
closures are captured by a fake ru.zmq.Subscriber; publishers write to an
in-memory network that serialises every message per subscriber, as the wire
does), AgentComponent.advance / ClientComponent.advance / BaseComponent.advance
/ publish for the default forward flag.
"""

import json

import radical.utils as ru
import radical.pilot as rp
import radical.pilot.states as rps
import radical.pilot.constants as rpc
import radical.pilot.session as m_session
import radical.pilot.utils.component as m_comp

from vfw.api import obligation, check, reach, trace, real, conc, Null

META = {
    'explanation':
        'Bounded symbolic execution (CrossHair+z3) of the real forwarding '
        'closures created by Session._crosswire_proxy()/crosswire_pubsub() for '
        'one client and 1..3 pilots over an in-memory pubsub network (local '
        'control/state pubsub per side, shared proxy pubsubs; every delivery '
        'is a JSON round trip of the message).  Originating side, channel, '
        'forward flag (absent/False/True) and origin marker (absent/own/other '
        'side/foreign) of up to two messages are solver variables; the network '
        'runs to quiescence under a hop budget and the per-side delivery '
        'counts are checked.',
    'assumes': ['ZMQ pubsub delivers each published message once to every '
                'subscriber of the channel (in-memory network)',
                'a message whose origin marker names another side is, by the '
                'documented rule in crosswire_pubsub, not forwarded']}

CHANNELS = [(rpc.CONTROL_PUBSUB, rpc.PROXY_CONTROL_PUBSUB),
            (rpc.STATE_PUBSUB,   rpc.PROXY_STATE_PUBSUB)]


def wire(msg):
    """what a subscriber receives: plain data, new objects.  Typed messages
    (ru.Message) go through the real msgpack encoder of ru.zmq"""
    if type(msg) is dict:
        return json.loads(json.dumps(msg))
    from radical.utils.serialize import to_msgpack, from_msgpack
    return ru.as_string(from_msgpack(to_msgpack(msg)))


class Net(object):
    def __init__(self, budget):
        self.subs   = {}        # url -> [cb]
        self.queue  = []
        self.budget = budget
        self.hops   = 0
        self.pending   = []     # (url, topic, msg) waiting for a subscriber
        self.swallowed = []
    def subscribe(self, url, cb):
        self.subs.setdefault(url, []).append(cb)
    def put(self, url, topic, msg):
        self.queue.append((url, topic, msg))
    def run(self):
        while self.queue:
            url, topic, msg = self.queue.pop(0)
            self.hops += 1
            if self.hops > self.budget:
                return False                    # circulates
            for cb in self.subs.get(url, []):
                cb(topic, wire(msg))                     # wire serialisation
        return True


class FakePub(object):
    def __init__(self, net, url): self.net, self.url = net, url
    def put(self, topic, msg): self.net.put(self.url, topic, msg)


class Reg(object):
    """registry view of one side: local bridges + shared proxy bridges"""
    def __init__(self, side): self.side = side
    def __getitem__(self, key):
        # 'bridges.<channel>.addr_sub|addr_pub'
        _, chan, _ = key.split('.')
        if chan.startswith('proxy_'):
            return 'proxy:%s' % chan
        return 'local:%s:%s' % (self.side, chan)


class Cfg(object):
    path = '/tmp'


def mk_side(net, module):
    s = object.__new__(rp.Session)
    s._module = module
    s._cfg    = Cfg()
    s._reg    = Reg(module)
    s._log    = Null()
    s._prof   = Null()
    s._to_stop = []
    s._role   = rp.Session._PRIMARY if module == 'client' \
                                    else rp.Session._AGENT_0
    return s


def build(n_pilots, budget, early=None):
    # early: (side, channel, msg) - a message already waiting on that side's
    # local channel when the side wires itself up: the subscriber's listener
    # thread delivers it as soon as the subscription exists (exceptions in a
    # callback are logged and swallowed by the listener, as in ru.zmq)
    net = Net(budget)
    # fake zmq endpoints used by session.py
    class _Pub(object):
        def __init__(self, channel=None, path=None, url=None, **kw):
            self._p = FakePub(net, url)
        def put(self, topic, msg): self._p.put(topic, msg)
    class _Sub(object):
        def __init__(self, channel=None, topic=None, path=None, cb=None,
                     url=None, **kw):
            net.subscribe(url, cb)
            pend = [q for q in net.pending if q[0] == url]
            for q in pend:
                net.pending.remove(q)
                try:
                    cb(q[1], wire(q[2]))
                except Exception as e:
                    net.swallowed.append(repr(e))
        def stop(self): pass
    m_session.ru.zmq.Publisher  = _Pub
    m_session.ru.zmq.Subscriber = _Sub
    sides = ['client'] + ['pilot.%04d' % i for i in range(n_pilots)]
    got   = {sd: [] for sd in sides}
    order = list(sides)
    if early:
        # the late joiner wires up last; its components are already running
        order.remove(early[0]); order.append(early[0])
    for sd in order:
        # application / component subscribers of this side
        for loc, _ in CHANNELS:
            url = 'local:%s:%s' % (sd, loc.lower())
            net.subscribe(url, lambda topic, msg, sd=sd, loc=loc:
                          got[sd].append((loc, msg.get('mid',
                                                                msg.get('uid')))))
        if early and sd == early[0]:
            url = 'local:%s:%s' % (sd, early[1].lower())
            for cb in net.subs.get(url, []):
                cb(early[1], wire(early[2]))
            net.pending.append((url, early[1], early[2]))
        s = mk_side(net, sd)
        real(s._crosswire_proxy)
    return net, sides, got


FWD    = [None, False, True]         # absent / False / True
ORIGIN = ['absent', 'own', 'other', 'foreign']


def _msg(mid, fwd, origin, side, sides):
    m = {'cmd': 'noop', 'arg': None, 'mid': mid}
    if FWD[fwd] is not None:
        m['fwd'] = FWD[fwd]
    o = ORIGIN[origin]
    if o == 'own':     m['origin'] = side
    if o == 'other':   m['origin'] = [x for x in sides if x != side][0]
    if o == 'foreign': m['origin'] = 'somewhere.else'
    return m


@obligation(params={'k': (0, 23), 'origin': (0, 3), 'two': 'bool',
                    'src2': (0, 3), 'fwd2': (0, 2), 'origin2': (0, 3)},
            shapes={'quick': [{'np': 2, 'small2': True,
                               '_ranges': {'k': (0, 17)}}],
                    'thorough': [{'np': 1, '_ranges': {'k': (0, 11)}},
                                 {'np': 3}]},
            partition={'quick': ('k', 18), 'thorough': ('k', 24)},
            timeout={'quick': 300, 'thorough': 1200},
            funcs=['radical/pilot/session.py:Session._crosswire_proxy',
                   'radical/pilot/session.py:Session.crosswire_pubsub',
                   'radical/pilot/session.py:Session.crosswire_pubsub.'
                   '<locals>.pubsub_fwd'],
            bounds='1 client + np pilots; 1 or 2 messages, each with symbolic '
                   'originating side, channel (control/state; second message '
                   'on the same channel), forward flag absent/False/True and '
                   'origin marker absent/own/another side/foreign (quick: second '
                   'message with flag absent/True and origin absent/other); '
                   'hop budget 8 x sides',
            stubs=['ru.zmq.Publisher/Subscriber -> in-memory network with '
                   'JSON round trip per delivery'])
def h_forward(k, origin, two, src2, fwd2, origin2, np=2, small2=False):
    """forwarded messages reach every other side exactly once, others stay"""
    k = conc(k, 0, 23)
    src, chan, fwd = k // 6, (k // 3) % 2, k % 3     # side x channel x flag
    if src > np or src2 > np: return
    if not two and (src2 or fwd2 or origin2): return
    if small2 and (fwd2 == 1 or origin2 in (1, 3)): return
    origin = conc(origin, 0, 3)
    src2, fwd2, origin2 = conc(src2, 0, 3), conc(fwd2, 0, 2), conc(origin2, 0, 3)
    net, sides, got = build(np, budget=8 * (np + 1) * (2 if two else 1))
    loc = CHANNELS[chan][0]
    msgs = [(1, src, fwd, origin)] + ([(2, src2, fwd2, origin2)] if two else [])
    for mid, sidx, f, o in msgs:
        side = sides[sidx]
        net.put('local:%s:%s' % (side, loc.lower()), loc,
                _msg(mid, f, o, side, sides))
    quiet = net.run()
    reach()
    trace('msgs', msgs, 'got', got, 'hops', net.hops)
    check(quiet, 'messages still circulate after %s hops', net.hops)
    for mid, sidx, f, o in msgs:
        side = sides[sidx]
        forwarded = FWD[f] is True and ORIGIN[o] in ('absent', 'own')
        for sd in sides:
            n = sum(1 for c, m in got[sd] if m == mid)
            wrong = sum(1 for c, m in got[sd] if m == mid and c != loc)
            check(wrong == 0, 'message %s crossed channels on %s', mid, sd)
            if sd == side:
                check(n == 1, 'originating side %s saw message %s %s times '
                      '(fwd=%s origin=%s)', sd, mid, n, FWD[f], ORIGIN[o])
            elif forwarded:
                check(n == 1, 'side %s received forwarded message %s from %s '
                      '%s times', sd, mid, side, n)
            else:
                check(n == 0, 'side %s received message %s (fwd=%s origin=%s) '
                      'which must stay on %s', sd, mid, FWD[f], ORIGIN[o], side)


# ------------------------------------------------------------------------------
class CapPub(object):
    def __init__(self): self.msgs = []
    def put(self, topic, msg): self.msgs.append((topic, msg))


@obligation(params={'agent': 'bool', 'st': (0, 2), 'explicit': (0, 2)},
            timeout={'quick': 200, 'thorough': 400},
            funcs=['radical/pilot/utils/component.py:AgentComponent.advance',
                   'radical/pilot/utils/component.py:ClientComponent.advance',
                   'radical/pilot/utils/component.py:BaseComponent.advance',
                   'radical/pilot/utils/component.py:BaseComponent.publish'],
            bounds='state advance of one task by an agent-side or client-side '
                   'component (non-final / FAILED / CANCELED), fwd argument '
                   'default / False / True; the published message is injected '
                   'into the 1 client + 2 pilots network',
            stubs=['component publisher -> capture', 'time -> real'])
def h_advance_default_fwd(agent, st, explicit):
    """agent-side advances are forwarded by default, client-side ones not"""
    st, explicit = conc(st, 0, 2), conc(explicit, 0, 2)
    cls = m_comp.AgentComponent if agent else m_comp.ClientComponent
    c = object.__new__(cls)
    c._uid, c._log, c._prof = 'comp.0', Null(), Null()
    cap = CapPub()
    c._publishers = {rpc.STATE_PUBSUB: cap}
    c._outputs    = {}
    state = [rps.AGENT_EXECUTING, rps.FAILED, rps.CANCELED][st]
    task  = {'uid': 't0', 'type': 'task', 'state': rps.AGENT_SCHEDULING}
    kw = {}
    if explicit: kw['fwd'] = (explicit == 2)
    real(c.advance, task, state, publish=True, push=False, **kw)
    check(len(cap.msgs) == 1, 'advance published %s messages', len(cap.msgs))
    topic, msg = cap.msgs[0]
    want = (explicit == 2) if explicit else bool(agent)
    check(bool(msg.get('fwd')) == want, 'fwd flag %r, expected %s',
          msg.get('fwd'), want)
    check('origin' not in msg, 'component set an origin marker')
    # inject on the originating side and watch where it ends up
    net, sides, got = build(2, budget=40)
    side = sides[1] if agent else sides[0]
    msg['mid'] = 7
    net.put('local:%s:%s' % (side, rpc.STATE_PUBSUB.lower()),
            rpc.STATE_PUBSUB, msg)
    check(net.run(), 'state update circulates')
    reach()
    for sd in sides:
        n = sum(1 for c_, m in got[sd] if m == 7)
        check(n == (1 if (sd == side or want) else 0), 'side %s got the state '
              'update %s times (origin %s, fwd %s)', sd, n, side, want)


# ------------------------------------------------------------------------------
@obligation(params={'src': (0, 2), 'chan': (0, 1)},
            timeout={'quick': 200, 'thorough': 400},
            funcs=['radical/pilot/session.py:Session.crosswire_pubsub'],
            bounds='1 client + 2 pilots; side `src` joins last while a '
                   'forwarded message already waits on one of its local '
                   'channels (its components were started before the '
                   'cross-wiring)')
def h_forward_while_wiring(src, chan):
    """a flagged message published while a side is being wired is not lost"""
    src, chan = conc(src, 0, 2), conc(chan, 0, 1)
    sides = ['client', 'pilot.0000', 'pilot.0001']
    loc   = CHANNELS[chan][0]
    msg   = {'cmd': 'noop', 'arg': None, 'mid': 5, 'fwd': True}
    net, sides, got = build(2, budget=60, early=(sides[src], loc, msg))
    check(net.run(), 'message circulates')
    reach()
    trace('got', got, 'swallowed', net.swallowed)
    for sd in sides:
        n = sum(1 for c, m in got[sd] if m == 5)
        check(n == 1, 'side %s received the message %s times (forwarder '
              'errors: %s)', sd, n, net.swallowed)


# ------------------------------------------------------------------------------
import radical.pilot.messages as m_msg                              # noqa: E402

TYPED = [('rpc_req', lambda: m_msg.RPCRequestMessage(uid='77', cmd='hello',
                                                     args=[1], kwargs={})),
         ('rpc_res', lambda: m_msg.RPCResultMessage(uid='77', val=3, out='o')),
         ('rpc_res of req', lambda: m_msg.RPCResultMessage(
              rpc_req=m_msg.RPCRequestMessage(uid='77', cmd='hello'), val=1)),
         ('component_start', lambda: m_msg.ComponentStartedMessage(uid='77',
                                                                   pid=1)),
         ('rpc_req local', lambda: m_msg.RPCRequestMessage(uid='77', cmd='x',
                                                           fwd=False))]


@obligation(params={'kind': (0, 4), 'src': (0, 2), 'np': (1, 2)},
            timeout={'quick': 200, 'thorough': 400},
            funcs=['radical/pilot/session.py:Session.crosswire_pubsub.'
                   '<locals>.pubsub_fwd',
                   'radical/pilot/messages.py:RPBaseMessage',
                   'radical/pilot/messages.py:RPCRequestMessage',
                   'radical/pilot/messages.py:RPCResultMessage'],
            bounds='typed control messages (RPC request, RPC result - also '
                   'built from a request -, component start, RPC request with '
                   'fwd=False) published on the control channel of the client '
                   'or of one of 1..2 pilots',
            stubs=['wire = real ru msgpack encoder + decoder'])
def h_forward_typed(kind, src, np):
    """typed messages obey their forward flag like plain ones"""
    kind, src, np = conc(kind, 0, 4), conc(src, 0, 2), conc(np, 1, 2)
    if src > np: return
    net, sides, got = build(np, budget=8 * (np + 1))
    name, mk = TYPED[kind]
    msg  = mk()
    side = sides[src]
    loc  = CHANNELS[0][0]
    net.put('local:%s:%s' % (side, loc.lower()), loc, msg)
    quiet = net.run()
    reach()
    trace('typed', name, 'from', side, 'got', got)
    check(quiet, 'typed message still circulates after %s hops', net.hops)
    want_fwd = bool(msg.get('fwd'))
    check(want_fwd == (kind in (0, 1, 2)), '%s message has fwd=%r', name,
          msg.get('fwd'))
    for sd in sides:
        n = sum(1 for c, m in got[sd] if m == '77')
        exp = 1 if (sd == side or want_fwd) else 0
        check(n == exp, '%s message from %s seen %s times on %s (expected %s)',
              name, side, n, sd, exp)
