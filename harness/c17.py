"""
C17 - every shipped platform resolves; pilots are sized to fit.

R1 (finite enumeration, stated as such): every shipped resource config x
     schema resolves through the real Session.get_resource_config logic to a
     resource manager, launch methods, agent scheduler, executor and agent
     config which exist in the code base.  These are the instances for R2.
R2 (E2, z3): the sizing arithmetic of PMGRLaunchingComponent._prepare_pilot is
     translated from the current source (AST) to z3 and the sizing property is
     decided for all pilot sizes - once fully symbolic in the node shape and
     once per shipped node shape.
"""

import ast
import glob
import inspect
import json
import math
import os
import sys
import textwrap
import time

import z3

import radical.utils as ru
import radical.pilot as rp
import radical.pilot.pmgr.launching.base as m_launch
import radical.pilot.agent.resource_manager.base as m_rmb
import radical.pilot.agent.launch_method.base    as m_lmb
import radical.pilot.agent.scheduler.base        as m_schb
import radical.pilot.agent.executing.base        as m_exb

from vfw.api import custom_obligation, check, Violation, trace, Null
from vfw import z3enc as E

META = {
    'explanation':
        'R2: the statements of PMGRLaunchingComponent._prepare_pilot are read '
        'from the current source and interpreted by a path-forking AST->z3 '
        'evaluator (vfw/z3enc.py): requested nodes/cores/GPUs/backup nodes, '
        'node size, SMT factor and the numbers of blocked cores/GPUs are z3 '
        'integers, `/` is real division, math.ceil a fresh integer with its '
        'defining inequalities; the resource config is a shared symbolic '
        'record so that two pilots prepared from the same config object are '
        'covered.  For every path the negated sizing property is given to z3: '
        'unsat = holds for all values in the stated ranges; a model is '
        'replayed by executing the sliced Python source on the model values.  '
        'R1 enumerates the shipped configs (concrete, finite) and feeds their '
        'node shapes to R2 as instances.',
    'assumes': ['float division behaves like real division for the operand '
                'sizes that occur (both operands < 2^26: exact up to one '
                'rounding which cannot cross an integer boundary for such '
                'quotients); not solver-checked here',
                'pilot description passed verify(): size given either as '
                'nodes, or as cores (+gpus); backup nodes only with nodes']}

CFG_DIR = os.path.join(os.path.dirname(rp.__file__), 'configs')


# ------------------------------------------------------------------------------
# R1
#
def _impl_keys(fn):
    src  = textwrap.dedent(inspect.getsource(fn))
    tree = ast.parse(src)
    glb  = inspect.getmodule(fn).__dict__
    keys = set()
    for node in ast.walk(tree):
        if isinstance(node, ast.Assign) and isinstance(node.value, ast.Dict) \
           and any(isinstance(t, ast.Name) and t.id == 'impl'
                   for t in node.targets):
            for k in node.value.keys:
                keys.add(eval(compile(ast.Expression(k), '<k>', 'eval'), glb))
    return keys


def _load_rcfgs():
    s = object.__new__(rp.Session)
    rcfgs = ru.Config('radical.pilot.resource', name='*', expand=False)
    s._rcfgs = ru.Config()
    for site in rcfgs:
        s._rcfgs[site] = ru.Config()
        for res, rcfg in rcfgs[site].items():
            s._rcfgs[site][res] = rp.ResourceConfig(rcfg)
    return s


def resolve_all():
    s = _load_rcfgs()
    lm_keys  = _impl_keys(m_lmb.LaunchMethod.create.__func__)
    sch_keys = _impl_keys(m_schb.AgentSchedulingComponent.create.__func__)
    ex_keys  = _impl_keys(m_exb.AgentExecutingComponent.create.__func__)
    problems, shapes, n = [], set(), 0
    for site in sorted(s._rcfgs):
        for res in sorted(s._rcfgs[site]):
            base    = s._rcfgs[site][res]
            schemas = list((base.get('schemas') or {}).keys()) or [None]
            for schema in schemas:
                label = '%s.%s/%s' % (site, res, schema)
                n += 1
                try:
                    rcfg = s.get_resource_config('%s.%s' % (site, res), schema)
                except Exception as e:
                    problems.append('%s: does not resolve: %r' % (label, e))
                    continue
                rm = rcfg.get('resource_manager')
                if not m_rmb.ResourceManager.get_manager(rm):
                    problems.append('%s: resource manager %r unknown'
                                    % (label, rm))
                lms = rcfg.get('launch_methods') or {}
                order = lms.get('order') or []
                if not order:
                    problems.append('%s: no launch methods' % label)
                for lm in order:
                    if lm not in lm_keys:
                        problems.append('%s: launch method %r unknown'
                                        % (label, lm))
                    if lm not in lms:
                        problems.append('%s: launch method %r has no config'
                                        % (label, lm))
                sch = rcfg.get('agent_scheduler')
                if sch not in sch_keys:
                    problems.append('%s: agent scheduler %r unknown'
                                    % (label, sch))
                spw = rcfg.get('agent_spawner')
                if spw not in ex_keys:
                    problems.append('%s: executor %r unknown' % (label, spw))
                ac = rcfg.get('agent_config')
                try:
                    ru.Config('radical.pilot.agent', name=ac)
                    if not glob.glob('%s/agent_%s.json' % (CFG_DIR, ac)):
                        problems.append('%s: agent config %r missing'
                                        % (label, ac))
                except Exception as e:
                    problems.append('%s: agent config %r: %r' % (label, ac, e))
                sa = rcfg.get('system_architecture') or {}
                shapes.add((int(rcfg.get('cores_per_node') or 0),
                            int(rcfg.get('gpus_per_node') or 0),
                            int(sa.get('smt') or 1),
                            len(sa.get('blocked_cores') or []),
                            len(sa.get('blocked_gpus') or [])))
    return n, problems, sorted(shapes)


@custom_obligation(
    funcs=['radical/pilot/session.py:Session.get_resource_config',
           'radical/pilot/agent/resource_manager/base.py:'
           'ResourceManager.get_manager',
           'radical/pilot/agent/launch_method/base.py:LaunchMethod.create',
           'radical/pilot/agent/scheduler/base.py:'
           'AgentSchedulingComponent.create',
           'radical/pilot/agent/executing/base.py:'
           'AgentExecutingComponent.create'],
    bounds='all shipped resource_*.json entries x access schemas (finite, '
           'enumerated concretely - not a solver claim)',
    timeout={'quick': 300, 'thorough': 300})
def h_resolve(tier='quick', replay=None):
    """every shipped platform x schema resolves to existing implementations"""
    n, problems, shapes = resolve_all()
    if replay is not None:
        hit = [p for p in problems if p == replay.get('problem')]
        if hit:
            raise Violation(hit[0])
        return
    known = _known_resolution_problems()
    new   = [p for p in problems if p not in known]
    if new:
        return {'status': 'refuted', 'queries': n,
                'args': {'problem': new[0]},
                'exc': 'Violation: ' + new[0], 'all_problems': new}
    return {'status': 'confirmed', 'queries': n,
            'samples': [{'configs_x_schemas': n, 'node_shapes': shapes[:8]}]}


def _known_resolution_problems():
    # problems listed in known_findings.json (printed as KNOWN-FINDING by the
    # runner when the witness still fails)
    path = os.path.join(os.path.dirname(os.path.dirname(__file__)),
                        'known_findings.json')
    out = set()
    try:
        for f in json.load(open(path)).get('findings', []):
            if f.get('harness') == 'h_resolve':
                out.update(f.get('problems', []))
    except Exception:
        pass
    return out


# ------------------------------------------------------------------------------
# R2
#
INPUTS = ['requested_nodes', 'requested_cores', 'requested_gpus',
          'backup_nodes', 'smt', 'requested_memory']
LISTS  = ['blocked_cores', 'blocked_gpus']


def _body():
    fn   = m_launch.PMGRLaunchingComponent._prepare_pilot
    src  = textwrap.dedent(inspect.getsource(fn))
    tree = ast.parse(src)
    return tree.body[0].body, src


def _helpers():
    """the other methods of the class: inlined when the sizing code calls them"""
    out = {}
    try:
        src  = textwrap.dedent(inspect.getsource(m_launch.PMGRLaunchingComponent))
        tree = ast.parse(src)
        for node in tree.body[0].body:
            if isinstance(node, ast.FunctionDef) and \
               node.name != '_prepare_pilot':
                out[node.name] = node
    except Exception:
        pass
    return out


def _assigns(stmt, name):
    for node in ast.walk(stmt):
        tg = []
        if isinstance(node, ast.Assign): tg = node.targets
        elif isinstance(node, (ast.AugAssign, ast.AnnAssign)): tg = [node.target]
        for t in tg:
            for sub in ast.walk(t):
                if isinstance(sub, ast.Name) and sub.id == name:
                    return True
    return False


def _run_pilot(body, suffix, rec, fresh, inputs):
    ev = E.Evaluator(record='rcfg', outputs=('jd_dict', 'agent_cfg'),
                     suffix=suffix, inputs=inputs, input_names=INPUTS,
                     list_names=LISTS,
                     record_fields=('cores_per_node', 'gpus_per_node'),
                     helpers=_helpers())
    st0 = E.State({}, rec, {}, [], fresh)
    out = ev.run(body, [st0])
    return ev, [s for s in out if s.status == 'ok']


def _pre(inp, lens, sfx, cpn, gpn):
    n, c, g, b = (inp['requested_nodes' + sfx], inp['requested_cores' + sfx],
                  inp['requested_gpus' + sfx], inp['backup_nodes' + sfx])
    smt = inp['smt' + sfx]
    nbc, nbg = lens['blocked_cores' + sfx], lens['blocked_gpus' + sfx]
    return [n >= 0, c >= 0, g >= 0, b >= 0, n <= 10 ** 6, c <= 10 ** 8,
            g <= 10 ** 7, b <= 10 ** 6, smt >= 1, smt <= 8,
            nbc >= 0, nbg >= 0, nbc < cpn * smt, nbg <= gpn,
            # PilotDescription.verify
            z3.Or(z3.And(n > 0, c == 0, g == 0), z3.And(n == 0, c > 0)),
            z3.Implies(b > 0, n > 0)]


def _post(st, inp, lens, sfx, cpn, gpn):
    n, c, g, b = (inp['requested_nodes' + sfx], inp['requested_cores' + sfx],
                  inp['requested_gpus' + sfx], inp['backup_nodes' + sfx])
    smt = inp['smt' + sfx]
    ac  = cpn * smt - lens['blocked_cores' + sfx]
    ag  = gpn       - lens['blocked_gpus' + sfx]
    o   = st.outs
    need = ['jd_dict.node_count', 'jd_dict.total_cpu_count',
            'jd_dict.total_gpu_count', 'agent_cfg.nodes', 'agent_cfg.cores',
            'agent_cfg.gpus', 'agent_cfg.backup_nodes',
            'agent_cfg.cores_per_node', 'agent_cfg.gpus_per_node']
    for k in need:
        if k not in o or o[k] is E.UNK:
            raise RuntimeError('translator lost %s (%r)' % (k, o.get(k)))
    N = o['agent_cfg.nodes']
    N = E.to_arith(N)
    covers = z3.And(N * ac >= c, z3.Implies(ag > 0, N * ag >= g))
    minimal = z3.Or(N == 0, (N - 1) * ac < c,
                    z3.And(ag > 0, (N - 1) * ag < g))
    sized = z3.If(n > 0, N == n, z3.And(covers, minimal))
    same  = z3.And(o['jd_dict.node_count'] == N + b,
                   o['agent_cfg.backup_nodes'] == b,
                   o['jd_dict.total_cpu_count'] == o['agent_cfg.cores'],
                   o['jd_dict.total_gpu_count'] == o['agent_cfg.gpus'],
                   o['agent_cfg.cores'] == (N + b) * ac,
                   z3.Implies(ag > 0, o['agent_cfg.gpus'] == (N + b) * ag),
                   o['agent_cfg.cores_per_node'] == cpn * smt,
                   o['agent_cfg.gpus_per_node'] == gpn)
    return z3.And(sized, same)


def _concrete_slice(src_lines_ns, vals):
    """execute the real sizing statements (sliced text) on concrete values"""
    body, src = _body()
    first = last = None
    for stmt in body:
        if first is None and isinstance(stmt, ast.Assign) \
           and _assigns(stmt, 'smt'):
            first = stmt
        if _assigns(stmt, 'allocated_gpus'):
            last = stmt
    assert first is not None and last is not None, 'sizing slice not found'
    lines = src.splitlines()[first.lineno - 1:last.end_lineno]
    code  = textwrap.dedent('\n'.join(lines))
    rcfg = src_lines_ns if src_lines_ns is not None else \
           type('R', (), {'cores_per_node': vals['cpn'],
                          'gpus_per_node': vals['gpn']})()
    ns = {'os': type('o', (), {'environ': {}})(), 'math': math,
          'self': object.__new__(m_launch.PMGRLaunchingComponent),
          'rcfg': rcfg,
          'system_architecture': {'smt': vals['smt']},
          'cores_per_node': rcfg.cores_per_node,
          'gpus_per_node': rcfg.gpus_per_node,
          'blocked_cores': list(range(vals['nbc'])),
          'blocked_gpus': list(range(vals['nbg'])),
          'requested_nodes': vals['n'], 'requested_cores': vals['c'],
          'requested_gpus': vals['g'], 'backup_nodes': vals['b']}
    exec(compile(code, '<sizing slice of _prepare_pilot>', 'exec'), ns)
    return ns


def _oracle_concrete(vals, ns):
    ac = vals['cpn'] * vals['smt'] - vals['nbc']
    ag = vals['gpn'] - vals['nbg']
    N  = ns['requested_nodes']
    if vals['n']:
        check(N == vals['n'], 'nodes requested %s, job asks %s', vals['n'], N)
    else:
        check(N * ac >= vals['c'] and (ag <= 0 or N * ag >= vals['g']),
              '%s nodes do not cover %s cores / %s gpus (usable per node: %s '
              'cores, %s gpus)', N, vals['c'], vals['g'], ac, ag)
        check(N == 0 or (N - 1) * ac < vals['c'] or
              (ag > 0 and (N - 1) * ag < vals['g']),
              '%s nodes requested, %s would suffice', N, N - 1)
    check(ns['allocated_cores'] == (N + vals['b']) * ac, 'allocated cores %s '
          '!= (%s + %s) * %s', ns['allocated_cores'], N, vals['b'], ac)
    if ag > 0:
        check(ns['allocated_gpus'] == (N + vals['b']) * ag, 'allocated gpus '
              '%s != (%s + %s) * %s', ns['allocated_gpus'], N, vals['b'], ag)


def _decide(shape_consts, two_pilots, timeout_ms):
    body, src = _body()
    fresh, inputs = [0], {}
    cpn0 = z3.Int('rcfg_cores_per_node')
    gpn0 = z3.Int('rcfg_gpus_per_node')
    rec  = {'cores_per_node': cpn0, 'gpus_per_node': gpn0}
    runs = []
    ev1, sts1 = _run_pilot(body, '_1', rec, fresh, inputs)
    if not sts1:
        raise RuntimeError('translator: no non-raising path (unsupported: %s)'
                           % ev1.unsupported[:5])
    queries, t0, samples = 0, time.time(), []
    feasible = 0
    lens = {}
    def lens_of(sfx):
        for nm in LISTS:
            lens[nm + sfx] = z3.Int('len_' + nm + sfx)
    lens_of('_1'); lens_of('_2')
    base = [cpn0 >= 1, cpn0 <= 512, gpn0 >= 0, gpn0 <= 16]
    if shape_consts:
        cpn_c, gpn_c, smt_c, nbc_c, nbg_c = shape_consts
        base += [cpn0 == cpn_c, gpn0 == gpn_c]
    for s1 in sts1:
        cases = [(s1, '_1', [])]
        if two_pilots:
            ev2, sts2 = _run_pilot(body, '_2', dict(s1.rec), fresh, inputs)
            cases = [(s2, '_2', s1.pc + _pre(inputs, lens, '_1', cpn0, gpn0))
                     for s2 in sts2]
        for st, sfx, extra in cases:
            pre = _pre(inputs, lens, sfx, cpn0, gpn0)
            if shape_consts:
                pre += [inputs['smt' + sfx] == smt_c,
                        lens['blocked_cores' + sfx] == nbc_c,
                        lens['blocked_gpus' + sfx] == nbg_c]
                if two_pilots:
                    pre += [inputs['smt_1'] == smt_c,
                            lens['blocked_cores_1'] == nbc_c,
                            lens['blocked_gpus_1'] == nbg_c]
            sol = z3.Solver()
            sol.set('timeout', timeout_ms)
            sol.add(base + extra + st.pc + pre)
            # vacuity guard: count the paths feasible under the precondition
            if str(sol.check()) == 'sat':
                feasible += 1
            queries += 1
            sol.push()
            sol.add(z3.Not(_post(st, inputs, lens, sfx, cpn0, gpn0)))
            r = sol.check()
            queries += 1
            if str(r) == 'sat':
                m = sol.model()
                def val(x):
                    v = m.eval(x, model_completion=True)
                    return v.as_long()
                vals = {'cpn': val(cpn0), 'gpn': val(gpn0),
                        'smt': val(inputs['smt' + sfx]),
                        'nbc': val(lens['blocked_cores' + sfx]),
                        'nbg': val(lens['blocked_gpus' + sfx]),
                        'n': val(inputs['requested_nodes' + sfx]),
                        'c': val(inputs['requested_cores' + sfx]),
                        'g': val(inputs['requested_gpus' + sfx]),
                        'b': val(inputs['backup_nodes' + sfx]),
                        'second_pilot': sfx == '_2'}
                if sfx == '_2':
                    vals['first'] = {
                        'smt': val(inputs['smt_1']),
                        'n': val(inputs['requested_nodes_1']),
                        'c': val(inputs['requested_cores_1'])}
                return {'status': 'refuted', 'queries': queries, 'args': vals,
                        'exc': 'Violation: sizing property fails for %s' % vals}
            if str(r) != 'unsat':
                return {'status': 'unknown', 'queries': queries,
                        'why': 'z3 answered %s' % r}
            sol.pop()
            if len(samples) < 3:
                samples.append({'path_condition': [str(p)[:80]
                                                   for p in st.pc[:6]],
                                'verdict': 'unsat'})
    if feasible < 2:
        return {'status': 'error', 'why': 'VACUOUS: only %d feasible paths '
                'through the sizing code under the precondition' % feasible}
    return {'status': 'confirmed', 'queries': queries,
            'feasible_paths': feasible,
            'solver_s': round(time.time() - t0, 2), 'samples': samples,
            'unsupported_statements': len(ev1.unsupported)}


def _replay_sizing(vals):
    rcfg = type('R', (), {'cores_per_node': vals['cpn'],
                          'gpus_per_node': vals['gpn']})()
    if vals.get('second_pilot'):
        # a first pilot is prepared from the same resource config object
        f = dict(vals, **vals.get('first', {}))
        f.setdefault('g', 0); f.setdefault('b', 0)
        _concrete_slice(rcfg, f)
    ns = _concrete_slice(rcfg, vals)
    _oracle_concrete(vals, ns)


def _validate_translator(shapes):
    """the z3 encoding and the sliced Python agree on concrete instances"""
    n = 0
    for (cpn, gpn, smt, nbc, nbg) in shapes:
        if not cpn or cpn * smt <= nbc:
            continue
        for (nn, c, g, b) in ((0, 1, 0, 0), (0, cpn * smt + 1, gpn, 0),
                              (3, 0, 0, 2), (0, 7 * cpn, 3 * gpn + 1, 0)):
            vals = {'cpn': cpn, 'gpn': gpn, 'smt': smt, 'nbc': nbc, 'nbg': nbg,
                    'n': nn, 'c': c, 'g': g, 'b': b}
            ns = _concrete_slice(None, vals)
            _oracle_concrete(vals, ns)
            n += 1
    return n


@custom_obligation(
    funcs=['radical/pilot/pmgr/launching/base.py:'
           'PMGRLaunchingComponent._prepare_pilot (sizing arithmetic)'],
    shapes={'quick': [{'two': False}, {'two': True}],
            'thorough': [{'two': False}, {'two': True}]},
    bounds='node size 1..512 cores, 0..16 GPUs, smt 1..8, blocked cores < '
           'node size, blocked GPUs <= GPUs, requested nodes <= 10^6, cores <= '
           '10^8, GPUs <= 10^7, backup nodes <= 10^6 (all symbolic); second '
           'shape: two pilots prepared from the same resource config object',
    timeout={'quick': 300, 'thorough': 1200})
def h_sizing_symbolic(tier='quick', replay=None, two=False):
    """smallest number of whole nodes; job and agent agree on the figures"""
    if replay is not None:
        return _replay_sizing(replay)
    return _decide(None, two, 120000)


@custom_obligation(
    funcs=['radical/pilot/pmgr/launching/base.py:'
           'PMGRLaunchingComponent._prepare_pilot (sizing arithmetic)'],
    bounds='one z3 query set per distinct shipped node shape (cores/node, '
           'gpus/node, smt, #blocked cores, #blocked gpus) with all pilot '
           'sizes symbolic; plus concrete differential validation of the '
           'encoding against the sliced source on 4 sizes per shape',
    timeout={'quick': 300, 'thorough': 1200})
def h_sizing_shipped(tier='quick', replay=None):
    """the sizing property for every shipped node shape"""
    if replay is not None:
        return _replay_sizing(replay)
    n, problems, shapes = resolve_all()
    validated = _validate_translator(shapes)
    queries, samples = 0, []
    for shp in shapes:
        if not shp[0]:
            continue              # node size unknown: nothing to size
        res = _decide(shp, False, 60000)
        queries += res['queries']
        if res['status'] != 'confirmed':
            res['queries'] = queries
            return res
        samples.append({'shape': shp, 'verdict': 'unsat'})
    return {'status': 'confirmed', 'queries': queries,
            'samples': samples[:6] + [{'translator_validated_on': validated}]}


# ------------------------------------------------------------------------------
# Lemma F: IEEE-754 double division followed by floor / ceil equals integer
# floor / ceil of the quotient for operands up to 2^k  (QF_BVFP, bit-blasted)
#
@custom_obligation(
    funcs=['(lemma about CPython float arithmetic used by '
           'radical/pilot/pmgr/launching/base.py:_prepare_pilot: math.ceil(a / b))'],
    shapes={'quick': [{'k': 6}], 'thorough': [{'k': 11}]},
    bounds='operands a, b: unsigned integers 0 <= a <= 2^k, 1 <= b <= 2^k '
           '(quick k=6, thorough k=11; measured here: k=8 32 s, 9 60 s, 10 '
           '91 s, 11 200 s, 12 no answer in 1400 s); beyond that "float division behaves '
           'like real division" stays an assumption',
    timeout={'quick': 300, 'thorough': 3600})
def h_lemma_float_division(tier='quick', replay=None, k=8):
    """floor/ceil(fp64(a) / fp64(b)) == integer floor/ceil of a/b"""
    if replay is not None:
        a, b = replay['a'], replay['b']
        check(math.floor(a / b) == a // b and math.ceil(a / b) == -((-a) // b),
              'float floor/ceil of %s/%s differ from the integer ones', a, b)
        return
    W = k + 2
    a, b = z3.BitVecs('a b', W)
    F, rne = z3.Float64(), z3.RNE()
    q   = z3.fpDiv(rne, z3.fpToFPUnsigned(rne, a, F),
                        z3.fpToFPUnsigned(rne, b, F))
    flb = z3.fpToUBV(z3.RTZ(), z3.fpRoundToIntegral(z3.RTN(), q),
                     z3.BitVecSort(W))
    ceb = z3.fpToUBV(z3.RTZ(), z3.fpRoundToIntegral(z3.RTP(), q),
                     z3.BitVecSort(W))
    idiv  = z3.UDiv(a, b)
    iceil = z3.If(z3.URem(a, b) == 0, idiv, idiv + 1)
    pre = [z3.ULE(a, 2 ** k), z3.ULE(b, 2 ** k), b != 0]
    # vacuity: the premises are satisfiable (own solver: a second check() on
    # the same solver would run in z3's much slower incremental mode)
    s0 = z3.Solver()
    s0.add(*pre)
    if str(s0.check()) != 'sat':
        return {'status': 'error', 'why': 'lemma premises unsatisfiable'}
    s = z3.Solver()
    # z3's timeout is wall-clock: generous, the machine may be loaded
    s.set('timeout', 3400000 if k > 8 else 560000)
    s.add(*pre)
    s.add(z3.Or(flb != idiv, ceb != iceil))
    t0 = time.time()
    r  = str(s.check())
    if r == 'sat':
        m = s.model()
        return {'status': 'refuted', 'queries': 2,
                'args': {'a': m[a].as_long(), 'b': m[b].as_long()},
                'exc': 'Violation: float division lemma fails'}
    if r != 'unsat':
        return {'status': 'unknown', 'queries': 2, 'why': 'z3 answered ' + r}
    return {'status': 'confirmed', 'queries': 2,
            'solver_s': round(time.time() - t0, 1),
            'samples': [{'lemma': 'floor/ceil(fp64(a)/fp64(b)) == int '
                                  'floor/ceil, a,b <= 2^%d' % k,
                         'verdict': 'unsat'}]}


# ------------------------------------------------------------------------------
# R2c: the whole real _prepare_pilot, concretely, for every shipped platform
# (finite enumeration, stated as such): what the job and the agent are told
# agrees with the platform's raw description (cores per node x SMT minus
# blocked hardware threads, GPUs minus blocked GPUs).  This covers the part of
# the function the symbolic slice starts after (how the blocked lists and node
# sizes are read from the config).
#
def _mk_launcher(session):
    from unittest import mock
    comp = object.__new__(m_launch.PMGRLaunchingComponent)
    comp._uid        = 'pmgr.launching.0000'
    comp._cfg        = mock.Mock()
    comp._log        = Null()
    comp._session    = session
    comp._pmgr       = 'pmgr.0000'
    comp._prof       = ru.Config(cfg={'enabled': False})
    comp._sandboxes  = dict()
    comp._root_dir   = '/radical_pilot_src'
    comp._rp_version = '0.0'
    return comp


def _prepare_concrete(session, comp, resource, schema, n, c, g, b):
    from unittest import mock
    pd = rp.PilotDescription({'resource': resource, 'access_schema': schema,
                              'project': 'p', 'queue': 'q', 'runtime': 10,
                              'nodes': n, 'cores': c, 'gpus': g,
                              'backup_nodes': b})
    pd.verify()
    pilot = {'uid': 'pilot.0000', 'description': pd.as_dict()}
    rcfg  = session.get_resource_config(resource, schema)
    # the RU env helper script is only staged (by name): its location in this
    # sandbox's interpreter layout is irrelevant
    real_which = ru.which
    def _which(names, *a, **k):
        return real_which(names, *a, **k) or '/opt/bin/%s' % ru.as_list(names)[0]
    with mock.patch.object(ru.Config, 'write', return_value=None), \
         mock.patch.object(ru, 'which', _which):
        comp._prepare_pilot(resource, rcfg, pilot, {}, 'x.tgz')
    for sd in pilot.get('sds', []):
        src = str(sd['source'])
        if os.path.basename(src).startswith('rp.agent_cfg.'):
            try: os.unlink(src)
            except OSError: pass
    return pilot['jd_dict'], pilot['cfg']


@custom_obligation(
    funcs=['radical/pilot/pmgr/launching/base.py:'
           'PMGRLaunchingComponent._prepare_pilot (whole function, concrete)',
           'radical/pilot/session.py:Session.get_resource_config'],
    bounds='finite enumeration (not symbolic): every shipped platform with a '
           'known node size x every access schema x 6..9 pilot sizes at the '
           'node-size boundaries (1 core, a full node, a full node + 1, 3 '
           'nodes - 1, 2 nodes, 3 nodes + 2 backup, and GPU-bound sizes)',
    timeout={'quick': 300, 'thorough': 600})
def h_prepare_shipped(tier='quick', replay=None):
    """job description and agent config follow the platform's raw description"""
    os.environ.pop('RADICAL_SMT', None)
    os.environ['PATH'] = '%s:%s' % (os.path.dirname(os.path.abspath(
                                    sys.executable)), os.environ.get('PATH', ''))
    s = _load_rcfgs()
    s._uid = 'session.verif'
    s._cfg = ru.Config(cfg={'proxy_url': 'tcp://localhost:10000/'})
    s._get_endpoint_fs      = lambda pilot: ru.Url('file://localhost/')
    s._get_resource_sandbox = lambda pilot: ru.Url('file://localhost/rs')
    s._get_session_sandbox  = lambda pilot: ru.Url('file://localhost/rs/s')
    s._get_pilot_sandbox    = lambda pilot: ru.Url('file://localhost/rs/s/p')
    s._get_client_sandbox   = lambda      : ru.Url('file://localhost/cs')
    comp = _mk_launcher(s)
    if replay is not None:
        todo = [(replay['resource'], replay['schema'],
                 [tuple(replay['size'])])]
    else:
        todo = []
        for site in sorted(s._rcfgs):
            for res in sorted(s._rcfgs[site]):
                for schema in sorted(s._rcfgs[site][res].get('schemas') or {}):
                    todo.append(('%s.%s' % (site, res), schema, None))
    n_checked, samples = 0, []
    for resource, schema, sizes in todo:
        site, res = resource.split('.', 1)
        raw = s._rcfgs[site][res]          # the shipped description itself
        sa  = raw.get('system_architecture') or {}
        cpn_raw = raw.get('cores_per_node') or 0
        if not cpn_raw:
            continue
        smt = int(sa.get('smt', 1) or 1)
        cpn = cpn_raw * smt - len(sa.get('blocked_cores', []) or [])
        gpn = (raw.get('gpus_per_node') or 0) - \
              len(sa.get('blocked_gpus', []) or [])
        if sizes is None:
            sizes = [(0, 1, 0, 0), (0, cpn, 0, 0), (0, cpn + 1, 0, 0),
                     (0, 3 * cpn - 1, 0, 0), (2, 0, 0, 0), (3, 0, 0, 2)]
            if gpn > 0:
                sizes += [(0, 1, gpn, 0), (0, 1, gpn + 1, 0), (0, cpn, 1, 0)]
        for (n, c, g, b) in sizes:
            args = {'resource': resource, 'schema': schema,
                    'size': [n, c, g, b]}
            try:
                jd, cfg = _prepare_concrete(s, comp, resource, schema, n, c, g, b)
            except Exception as e:
                if replay is not None:
                    check(False, '_prepare_pilot raised %r for %s', e, args)
                return {'status': 'refuted', 'queries': n_checked, 'args': args,
                        'exc': 'Violation: _prepare_pilot raised %r' % e}
            exp_nodes = n or max(-(-c // cpn), -(-g // gpn) if gpn > 0 else 0)
            exp = (exp_nodes + b, (exp_nodes + b) * cpn,
                   ((exp_nodes + b) * gpn) if gpn > 0 else g)
            got = (jd.node_count, jd.total_cpu_count, jd.total_gpu_count)
            agent = (cfg['nodes'] + cfg['backup_nodes'], cfg['cores'],
                     cfg['gpus'])
            n_checked += 1
            if got != exp or agent != got:
                msg = ('%s [%s] nodes=%d cores=%d gpus=%d backup=%d: job asks '
                       'for (nodes, cores, gpus) = %s, agent is told %s, the '
                       'platform description (usable per node: %d cores, %d '
                       'gpus) requires %s' % (resource, schema, n, c, g, b, got,
                                              agent, cpn, gpn, exp))
                if replay is not None:
                    check(False, '%s', msg)
                return {'status': 'refuted', 'queries': n_checked, 'args': args,
                        'exc': 'Violation: ' + msg}
            if len(samples) < 4:
                samples.append({'platform': resource, 'schema': schema,
                                'size': [n, c, g, b], 'job': list(got)})
        sizes = None
    if replay is not None:
        return
    # concrete evaluations, no solver involved: not counted as queries
    return {'status': 'confirmed', 'queries': 0, 'paths': n_checked,
            'reached': {'main': n_checked}, 'samples': samples}
