"""
C18 - the pilot offers exactly the nodes it was allocated.

Real code: ResourceManager._init_from_scratch / _filter_nodes /
_parse_nodefile / _get_cores_per_node / _get_node_list and
Slurm / LSF / Torque / Cobalt / Fork .init_from_scratch; node files and the
batch environment are in-memory fakes; ru.get_hostlist is real.
"""

import math

import radical.utils as ru
import radical.pilot.constants as rpc
import radical.pilot.agent.resource_manager.base   as m_base
import radical.pilot.agent.resource_manager.slurm  as m_slurm
import radical.pilot.agent.resource_manager.lsf    as m_lsf
import radical.pilot.agent.resource_manager.torque as m_torque
import radical.pilot.agent.resource_manager.cobalt as m_cobalt
import radical.pilot.agent.resource_manager.fork   as m_fork

from vfw.api import obligation, check, reach, trace, conc, Null

META = {
    'explanation':
        'Bounded symbolic execution (CrossHair+z3) of the real resource '
        'manager initialisation for Slurm, LSF, Torque, Cobalt and Fork: the '
        'batch environment (node list expression / node file lines incl. '
        'repeated host lines and login/batch pseudo nodes), cores and GPUs per '
        'node, SMT factor, requested and backup nodes, the agent layout '
        '(sub-agent nodes, service node) and the blocked core/GPU index sets '
        'are solver variables; the resulting RMInfo is checked: one entry per '
        'distinct usable host, unique indices, configured number of core/GPU '
        'cells with exactly the blocked ones DOWN, agent/service nodes '
        'disjoint from the offered list, 1 <= |node_list| <= requested nodes, '
        'and the registry round trip RMInfo(as_dict()) is the same list.',
    'assumes': ['RMInfo list defaults are re-initialised per run (they are '
                'class-level shared lists)',
                'backup-node ssh reachability probes are stubbed to "all '
                'reachable"']}

FUNCS = ['radical/pilot/agent/resource_manager/base.py:ResourceManager.' + n
         for n in ('_init_from_scratch', '_filter_nodes', '_parse_nodefile',
                   '_get_cores_per_node', '_get_node_list')]

HOSTS = ['n1', 'n2', 'n3', 'n4']


class FakePath(object):
    def __init__(self, services): self.services = services
    def isfile(self, p): return self.services if 'services' in p else False
    def __getattr__(self, k):
        import os
        return getattr(os.path, k)


class FakeOS(object):
    def __init__(self, env, services=False):
        self.environ = env
        self.path    = FakePath(services)
    def getenv(self, k, d=None): return self.environ.get(k, d)
    def __getattr__(self, k):
        import os
        return getattr(os, k)


class FakeFile(object):
    def __init__(self, lines): self.lines = lines
    def __enter__(self): return self
    def __exit__(self, *a): return False
    def readlines(self): return [l + '\n' for l in self.lines]


class FakeRU(object):
    def __init__(self, files): self.files = files
    def ru_open(self, fname, mode='r'):
        if fname not in self.files: raise IOError(fname)
        return FakeFile(self.files[fname])
    def write_json(self, *a, **k): pass
    def __getattr__(self, k): return getattr(ru, k)


class FakeProcess(object):
    def __init__(self, cmd): self.retcode, self.stdout, self.stderr = 0, '', ''
    def start(self): pass
    def wait(self, timeout=None): pass
    def cancel(self): pass


def _reset_defaults():
    d = m_base.RMInfo._defaults
    for k in ('partition_ids', 'node_list', 'backup_list', 'agent_node_list',
              'service_node_list'):
        d[k] = list()
    for k in ('details', 'launch_methods', 'numa_domain_map'):
        d[k] = dict()


def mk_rm(cls, mod, env, files, cpn, gpn, smt, nodes, cores, gpus, backup,
          n_agents, services, blocked_cores, blocked_gpus, fake=False):
    _reset_defaults()
    rm = object.__new__(cls)
    rm.name  = cls.__name__
    rm._log  = Null()
    rm._prof = Null()
    agents = {'agent_%d' % i: {'target': 'node'} for i in range(1, n_agents + 1)}
    rm._cfg  = ru.Config(from_dict={
        'backup_nodes': backup, 'nodes': nodes, 'cores': cores, 'gpus': gpus,
        'cores_per_node': cpn, 'gpus_per_node': gpn, 'lfs_size_per_node': 0,
        'lfs_path_per_node': '/tmp', 'agents': agents})
    rm._rcfg = ru.Config(from_dict={
        'system_architecture': {'smt': smt, 'blocked_cores': blocked_cores,
                                'blocked_gpus': blocked_gpus},
        'mem_per_node': 0, 'numa_domain_map': {}, 'n_partitions': 1,
        'launch_methods': {'order': ['FORK'], 'FORK': {}},
        'fake_resources': fake})
    fos = FakeOS(env, services)
    fru = FakeRU(files)
    m_base.os, m_base.ru, m_base.Process = fos, fru, FakeProcess
    mod.os = fos
    if hasattr(mod, 'ru'): mod.ru = fru
    return rm


def verify_rm_info(info, hosts_expected, cells_per_node, gpn, blocked_cores,
                   blocked_gpus, requested, n_agents, services):
    nl = info.node_list
    names = [n['name'] for n in nl]
    idx   = [n['index'] for n in nl]
    check(len(nl) >= 1, 'empty node list')
    check(len(nl) <= requested, 'node list has %s entries, pilot asked for %s '
          'nodes', len(nl), requested)
    check(len(set(idx)) == len(idx), 'node indices not unique: %s', idx)
    if hosts_expected is not None:
        check(len(set(names)) == len(names), 'host listed twice: %s', names)
        check(all(n in hosts_expected for n in names), 'node list %s names a '
              'host outside the allocation %s', names, hosts_expected)
    for n in nl:
        check(len(n['cores']) == cells_per_node, 'node %s has %s core cells, '
              'configured %s', n['name'], len(n['cores']), cells_per_node)
        check(len(n['gpus']) == gpn, 'node %s has %s gpu cells, configured %s',
              n['name'], len(n['gpus']), gpn)
        for i, c in enumerate(n['cores']):
            check((c is rpc.DOWN) == (i in blocked_cores), 'node %s core %s: '
                  '%s (blocked: %s)', n['name'], i, c, blocked_cores)
        for i, g in enumerate(n['gpus']):
            check((g is rpc.DOWN) == (i in blocked_gpus), 'node %s gpu %s: %s '
                  '(blocked: %s)', n['name'], i, g, blocked_gpus)
    check(info.cores_per_node == cells_per_node - len(blocked_cores),
          'usable cores_per_node %s != %s cells - %s blocked',
          info.cores_per_node, cells_per_node, len(blocked_cores))
    check(len(info.agent_node_list) == n_agents, 'agent nodes %s, layout needs '
          '%s', len(info.agent_node_list), n_agents)
    check(len(info.service_node_list) == (1 if services else 0),
          'service nodes %s', len(info.service_node_list))
    offered = {(n['name'], n['index']) for n in nl}
    for n in list(info.agent_node_list) + list(info.service_node_list):
        check((n['name'], n['index']) not in offered, 'reserved node %s is '
              'also offered for tasks', n['name'])
    # what the other components read from the registry
    again = m_base.RMInfo(info.as_dict())
    check(again.node_list == info.node_list and
          again.agent_node_list == info.agent_node_list,
          'registry round trip changes the node list')


SLURM_LISTS = [('n1', ['n1']), ('n[1-2]', ['n1', 'n2']),
               ('n[1-3]', ['n1', 'n2', 'n3']), ('n1,n3', ['n1', 'n3']),
               ('n[1-4]', ['n1', 'n2', 'n3', 'n4']), ('n[2-4]', ['n2', 'n3', 'n4'])]


def _masks(mask, n):
    return [i for i in range(n) if (mask >> i) & 1]


CPN_COMBOS = [(0, 1), (0, 2), (1, 2), (2, 2)]    # (configured, from env / 2)


@obligation(params={'nc': (0, 23), 'gpn': (0, 2), 'req': (0, 4), 'n_agents': (0, 2),
                    'services': 'bool', 'bc': (0, 3), 'bg': (0, 3),
                    'backup': (0, 1), 'rgpus': (0, 4)},
            shapes={'quick': [{'small': True}], 'thorough': [{'small': False}]},
            partition={'quick': ('nc', 24), 'thorough': ('nc', 24)},
            timeout={'quick': 300, 'thorough': 1800},
            funcs=FUNCS + ['radical/pilot/agent/resource_manager/slurm.py:'
                           'Slurm.init_from_scratch'],
            bounds='Slurm: node list expression from 6 forms (1..4 hosts, '
                   'ranges and comma lists), cores per node configured (0 = '
                   'from $SLURM_CPUS_ON_NODE) 2 or 4, GPUs per node 0..2, '
                   'requested nodes 0..4 (0 = derive from cores), 0..2 '
                   'sub-agent nodes, service node, blocked core/GPU masks over '
                   'the first 2 indices, backup nodes 0/1, requested GPUs 0..4 '
                   '(when the node count is derived)')
def h_slurm(nc, gpn, req, n_agents, services, bc, bg, backup, rgpus,
            small=False):
    """Slurm allocation -> node list offered for placement"""
    # nc: node list form x (configured cores per node, $SLURM_CPUS_ON_NODE / 2);
    # the env value is only read when nothing is configured
    nc = conc(nc, 0, 23)
    nl = nc // 4
    cpn_cfg, cpn_env = CPN_COMBOS[nc % 4]
    # requested GPUs only matter when the node count is derived (req == 0)
    if rgpus and (req or not gpn): return
    if small:
        if rgpus and (n_agents or services or bc or bg): return
        if bg > 1 or bc > 1 or cpn_env != 2 or gpn > 1 or cpn_cfg == 1: return
        if backup: return
        # blocked cells and the agent layout are handled independently
        if (bc or bg) and (n_agents or services or backup): return
        if bg and not gpn: return
    else:
        # thorough: factors that cannot interact are not multiplied out
        if bg and not gpn: return                # no GPUs: nothing to block
        if backup and (bc or bg): return         # backup vs. blocked cells
        if rgpus and (backup or n_agents > 1): return
    gpn, req, n_agents = conc(gpn, 0, 2), conc(req, 0, 4), conc(n_agents, 0, 2)
    bc, bg, backup = conc(bc, 0, 3), conc(bg, 0, 3), conc(backup, 0, 1)
    expr, hosts = SLURM_LISTS[nl]
    cpn = [0, 2, 4][cpn_cfg]
    env = {'SLURM_NODELIST': expr, 'SLURM_CPUS_ON_NODE': str(2 * cpn_env),
           'SLURM_JOB_ID': '1'}
    cells = cpn or 2 * cpn_env
    blocked_c = _masks(bc, 2)
    blocked_g = [i for i in _masks(bg, 2) if i < gpn]
    if len(blocked_c) >= cells: return
    rgpus = conc(rgpus, 0, 4)
    cores = (req or 1) * (cells - len(blocked_c))
    rm = mk_rm(m_slurm.Slurm, m_slurm, env, {}, cpn, gpn, 1, req, cores, rgpus,
               backup, n_agents, services, blocked_c, blocked_g)
    try:
        info = rm._init_from_scratch()
    except (AssertionError, RuntimeError, ValueError, IndexError) as e:
        trace('refused', repr(e))
        return              # the agent refuses to start: nothing is offered
    reach()
    if req:
        requested = req
    else:
        # derived by the agent: smallest node count covering cores and GPUs
        requested = -(-cores // (cells - len(blocked_c)))
        if gpn - len(blocked_g) > 0:
            requested = max(requested, -(-rgpus // (gpn - len(blocked_g))))
        check(info.requested_nodes == requested, 'agent derives %s nodes for '
              '%s cores / %s gpus (usable per node: %s cores, %s gpus)',
              info.requested_nodes, cores, rgpus, cells - len(blocked_c),
              gpn - len(blocked_g))
    verify_rm_info(info, hosts, cells, gpn, blocked_c, blocked_g, requested,
                   n_agents, services)
    check(len(info.node_list) == min(len(hosts), requested)
          - n_agents - (1 if services else 0),
          'offered %s nodes: allocation %s, requested %s, reserved %s',
          len(info.node_list), len(hosts), requested,
          n_agents + (1 if services else 0))


# node file lines: index into LINES per line; 0 = no (more) lines
LINES = [None, 'n1', 'n2', 'n3', 'login1', 'batch2']


@obligation(params={'l01': (0, 29), 'l2': (0, 5), 'l3': (0, 5),
                    'l4': (0, 5), 'kind': (0, 2), 'cpn_cfg': (0, 2),
                    'smt': (1, 2), 'req': (1, 3), 'n_agents': (0, 1)},
            shapes={'quick': [{'small': True}], 'thorough': [{'small': False}]},
            partition={'quick': ('l01', 30), 'thorough': ('l01', 30)},
            timeout={'quick': 300, 'thorough': 3000},
            funcs=FUNCS + ['radical/pilot/agent/resource_manager/lsf.py:'
                           'LSF.init_from_scratch',
                           'radical/pilot/agent/resource_manager/torque.py:'
                           'Torque.init_from_scratch',
                           'radical/pilot/agent/resource_manager/cobalt.py:'
                           'Cobalt.init_from_scratch'],
            bounds='node file of 1..5 lines (quick: 1..3), each naming one of n1 n2 n3 login1 '
                   'batch2 (repeated host lines = slots; 5-line files only as one host repeated 3 times after 2 arbitrary lines); batch system LSF / '
                   'Torque / Cobalt; cores per node configured 0 (detect) / 1 / '
                   '2; SMT 1..2 (LSF); requested nodes 1..3; 0..1 agent nodes')
def h_nodefile(l01, l2, l3, l4, kind, cpn_cfg, smt, req, n_agents,
               small=False):
    """node-file based batch systems -> node list offered for placement"""
    if small and (l3 != 0 or l4 != 0 or smt != 1 or cpn_cfg == 1
                  or req > 2 or l2 > 3): return
    if not small:
        if smt != 1 and kind != 0: return        # SMT is only read by LSF
        if l4 and not (l2 == l3 == l4): return   # 5 lines: one host repeated
        # only LSF treats login/batch hosts specially: for the others they are
        # just two more host names (kept on line 2 via l01, dropped later on)
        if kind != 0 and (l2 > 3 or l3 > 3): return
    l01 = conc(l01, 0, 29)
    ls = [1 + l01 // 6, l01 % 6, conc(l2, 0, 5), conc(l3, 0, 5),
          conc(l4, 0, 5)]
    kind, cpn_cfg, smt = conc(kind, 0, 2), conc(cpn_cfg, 0, 2), conc(smt, 1, 2)
    req, n_agents = conc(req, 1, 3), conc(n_agents, 0, 1)
    lines = []
    for x in ls:
        if x == 0: break
        lines.append(LINES[x])
    # canonical form: once a 0 is seen, later entries must be 0 too
    if any(ls[i] == 0 and ls[j] != 0 for i in range(5) for j in range(i + 1, 5)):
        return
    files = {'/nodefile': lines}
    cpn   = cpn_cfg
    if kind == 0:
        cls, mod, env = m_lsf.LSF, m_lsf, {'LSB_DJOB_HOSTFILE': '/nodefile'}
    elif kind == 1:
        cls, mod, env = m_torque.Torque, m_torque, {'PBS_NODEFILE': '/nodefile'}
    else:
        cls, mod, env = m_cobalt.Cobalt, m_cobalt, \
                        {'COBALT_NODEFILE': '/nodefile'}
        if not cpn: return                 # cobalt needs a configured size
    rm = mk_rm(cls, mod, env, files, cpn, 0, smt, req, req * (cpn or 1), 0, 0,
               n_agents, False, [], [])
    try:
        info = rm._init_from_scratch()
    except (AssertionError, RuntimeError, ValueError, IndexError) as e:
        trace('refused', repr(e))
        return
    reach()
    hosts = []
    for h in lines:
        if h not in hosts: hosts.append(h)
    if kind == 0:
        hosts = [h for h in hosts if 'login' not in h and 'batch' not in h]
    trace('lines', lines, 'kind', kind, 'cpn', cpn, 'nodes',
          [(n['name'], len(n['cores'])) for n in info.node_list])
    cells = info.cores_per_node
    verify_rm_info(info, hosts, cells, 0, [], [], req, n_agents, False)
    if cpn and kind != 0:
        check(info.cores_per_node == cpn, 'configured %s cores per node, RM '
              'reports %s', cpn, info.cores_per_node)
    check(len(info.node_list) == min(len(hosts), req) - n_agents,
          'offered %s nodes: usable hosts %s, requested %s, agent nodes %s',
          len(info.node_list), hosts, req, n_agents)


@obligation(params={'cpn': (0, 4), 'req_nodes': (0, 3), 'cores': (1, 8),
                    'backup': (0, 2), 'fake': 'bool', 'n_agents': (0, 1)},
            partition={'quick': ('cores', 8), 'thorough': ('cores', 8)},
            shapes={'quick': [{'_ranges': {'cores': (1, 5), 'backup': (0, 1)}}],
                    'thorough': [{}]},
            timeout={'quick': 300, 'thorough': 600},
            funcs=FUNCS + ['radical/pilot/agent/resource_manager/fork.py:'
                           'Fork.init_from_scratch'],
            bounds='Fork: 4 detected cores, configured cores per node 0..4, '
                   'requested nodes 0..3 / cores 1..8, backup nodes 0..2, '
                   'fake_resources on/off, 0..1 agent nodes')
def h_fork(cpn, req_nodes, cores, backup, fake, n_agents):
    """localhost: virtual nodes offered for placement"""
    cpn, req_nodes, cores = conc(cpn, 0, 4), conc(req_nodes, 0, 3), \
                            conc(cores, 1, 8)
    backup, n_agents = conc(backup, 0, 2), conc(n_agents, 0, 1)
    class MP(object):
        @staticmethod
        def cpu_count(): return 4
    m_fork.multiprocessing = MP
    rm = mk_rm(m_fork.Fork, m_fork, {}, {}, cpn, 0, 1, req_nodes, cores, 0,
               backup, n_agents, False, [], [], fake=fake)
    try:
        info = rm._init_from_scratch()
    except (AssertionError, RuntimeError, ValueError, ZeroDivisionError,
            IndexError) as e:
        trace('refused', repr(e))
        return
    reach()
    requested = req_nodes or info.requested_nodes
    verify_rm_info(info, None, cpn or 4, 0, [], [], requested, n_agents, False)
    check(len(info.node_list) == requested - n_agents, 'offered %s nodes, '
          'requested %s, agent nodes %s', len(info.node_list), requested,
          n_agents)


# ------------------------------------------------------------------------------
# PBSPro: exec_vnode of `qstat -f` (chunks, several chunks per vnode, several
# vnodes per chunk, wrapped output), fallback to $PBS_NODEFILE
#
import radical.pilot.agent.resource_manager.pbspro as m_pbs        # noqa: E402

# chunk layouts over vnodes n1..n3: list of chunks, chunk = list of vnodes
VLAYOUTS = [[['n1']], [['n1'], ['n2']], [['n1'], ['n1'], ['n2'], ['n2']],
            [['n1'], ['n2'], ['n1']], [['n1', 'n2']], [['n1', 'n2'], ['n3']],
            [['n3'], ['n2'], ['n1']], [['n1'], ['n2'], ['n3'], ['n1']]]


def _qstat(layout, ncpus, wrap):
    rhs = '+'.join('(' + '+'.join('%s:ncpus=%d' % (v, ncpus) for v in ch) + ')'
                   for ch in layout)
    text = '    exec_vnode = ' + rhs
    if wrap:
        # qstat folds long values: continuation lines start with a tab
        lines, cur = [], text
        while len(cur) > 40:
            lines.append(cur[:40]); cur = '\t' + cur[40:]
        lines.append(cur)
        text = '\n'.join(lines)
    return ('Job Id: 1.srv\n    Job_Name = x\n    exec_host = h/0\n%s\n'
            '    Hold_Types = n\n' % text)


class PbsRU(FakeRU):
    def __init__(self, files, out, ret):
        FakeRU.__init__(self, files)
        self.out, self.ret = out, ret
    def sh_callout(self, cmd, **k):
        return self.out, 'qstat: error' if self.ret else '', self.ret


@obligation(params={'lay': (0, 7), 'ncpus': (1, 2), 'wrap': 'bool',
                    'req': (1, 3), 'qfail': 'bool', 'n_agents': (0, 1)},
            partition={'quick': ('lay', 8), 'thorough': ('lay', 8)},
            timeout={'quick': 300, 'thorough': 600},
            funcs=FUNCS + ['radical/pilot/agent/resource_manager/pbspro.py:'
                           'PBSPro.init_from_scratch',
                           'radical/pilot/agent/resource_manager/pbspro.py:'
                           'PBSPro._parse_pbspro_vnodes'],
            bounds='PBSPro: exec_vnode with 8 chunk layouts over 1..3 vnodes '
                   '(one chunk per vnode, several chunks per vnode adjacent or '
                   'scattered, several vnodes per chunk), ncpus 1..2 per chunk, '
                   'qstat output folded or not; qstat failing -> $PBS_NODEFILE '
                   'fallback (one line per vnode); requested nodes 1..3, 0..1 '
                   'agent nodes',
            stubs=['ru.sh_callout(qstat -f) -> generated text'])
def h_pbspro(lay, ncpus, wrap, req, qfail, n_agents):
    """PBSPro allocation -> one node entry per distinct vnode"""
    lay, ncpus, req = conc(lay, 0, 7), conc(ncpus, 1, 2), conc(req, 1, 3)
    n_agents = conc(n_agents, 0, 1)
    layout = VLAYOUTS[lay]
    hosts  = []
    for ch in layout:
        for v in ch:
            if v not in hosts: hosts.append(v)
    files = {'/nodefile': list(hosts)}
    env   = {'PBS_JOBID': '1.srv', 'PBS_NODEFILE': '/nodefile'}
    rm = mk_rm(m_pbs.PBSPro, m_pbs, env, files, ncpus, 0, 1, req, req * ncpus,
               0, 0, n_agents, False, [], [])
    m_pbs.ru = m_base.ru = PbsRU(files, _qstat(layout, ncpus, wrap),
                                 1 if qfail else 0)
    try:
        info = rm._init_from_scratch()
    except (AssertionError, RuntimeError, ValueError, IndexError) as e:
        trace('refused', repr(e))
        return
    reach()
    trace('layout', layout, 'nodes', [(n['name'], n['index'])
                                      for n in info.node_list])
    verify_rm_info(info, hosts, ncpus, 0, [], [], req, n_agents, False)
    check(len(info.node_list) == min(len(hosts), req) - n_agents,
          'offered %s nodes: distinct vnodes %s, requested %s, agent nodes %s',
          len(info.node_list), hosts, req, n_agents)
