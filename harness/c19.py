"""
C19 - descriptions and placements survive normalisation and transport.

D1: TaskDescription.__init__/verify/_verify/as_dict  (ru.TypedDict machinery)
D1b: PilotDescription likewise
D2: convert_slots_to_new / convert_slots_to_old / Slot.__init__
"""

from vfw.api import obligation, check, reach, trace, real, conc
from harness.common import rp

import radical.pilot.task_description as m_td
from radical.pilot.utils.misc      import convert_slots_to_new, \
                                          convert_slots_to_old
from radical.pilot.resource_config import Slot, RO

META = {
    'explanation':
        'Bounded symbolic execution (CrossHair+z3) of the real '
        'TaskDescription/PilotDescription verify()/_verify()/as_dict() and of '
        'the slot format converters.  Integer attribute values are symbolic '
        'integers (one path covers all non-zero values), string attributes are '
        'drawn from a concrete table by presence flags, the task mode is a '
        'symbolic index over all modes.',
    'assumes': ['PythonTask / serialize_obj (dill, msgpack: C extensions at '
                'which CrossHair concretises) are outside the claim']}

MODES = [None, '', m_td.TASK_EXECUTABLE, m_td.TASK_SERVICE, m_td.AGENT_SERVICE,
         m_td.TASK_FUNC, m_td.TASK_METH, m_td.TASK_PROC, m_td.TASK_EVAL,
         m_td.TASK_EXEC, m_td.TASK_SHELL, m_td.RAPTOR_MASTER,
         m_td.RAPTOR_WORKER]

# mode -> attribute that must be set
NEEDS = {m_td.TASK_EXECUTABLE: 'executable', m_td.TASK_SERVICE: 'executable',
         m_td.AGENT_SERVICE: 'executable', m_td.TASK_FUNC: 'function',
         m_td.TASK_METH: 'function', m_td.TASK_PROC: 'executable',
         m_td.TASK_EVAL: 'code', m_td.TASK_EXEC: 'code',
         m_td.TASK_SHELL: 'command'}


def _roundtrip(d, cls):
    a1 = d.as_dict()
    d2 = cls(from_dict=a1)
    check(d2.as_dict() == a1, 'dict -> description -> dict differs')
    check(d2 == d, 'description rebuilt from as_dict() is not equal')
    real(d.verify)
    a2 = d.as_dict()
    check(a2 == a1, 'verify() is not idempotent: %s',
          {k: (a1.get(k), a2.get(k)) for k in a1 if a1.get(k) != a2.get(k)})
    return a1


@obligation(params={'im': (0, len(MODES) - 1), 'x': 'bool', 'f': 'bool',
                    'c': 'bool', 's': 'bool', 'ne': 'bool'},
            timeout={'quick': 300, 'thorough': 600},
            partition={'quick': ('im', 13), 'thorough': ('im', 13)},
            funcs=['radical/pilot/task_description.py:TaskDescription._verify'],
            bounds='13 mode values (incl. None, empty, raptor modes) x presence '
                   'of executable/function/code/command/named_env')
def h_td_modes(im, x, f, c, s, ne):
    """required attributes per task mode are enforced, nothing else refused"""
    fd = {'uid': 't0'}
    if MODES[im] is not None: fd['mode'] = MODES[im]
    if x:  fd['executable'] = '/bin/true'
    if f:  fd['function']   = 'fn'
    if c:  fd['code']       = '1+1'
    if s:  fd['command']    = 'true'
    if ne: fd['named_env']  = 'env0'
    d    = rp.TaskDescription(from_dict=fd)
    mode = MODES[im] or m_td.TASK_EXECUTABLE
    need = NEEDS.get(mode)
    have = {'executable': x, 'function': f, 'code': c, 'command': s}
    must_fail = bool(need and not have[need]) or \
                (mode in (m_td.TASK_FUNC, m_td.TASK_METH) and ne)
    try:
        d.verify()
        ok = True
    except ValueError:
        ok = False
    reach()
    check(ok == (not must_fail), 'mode %s executable=%s function=%s code=%s '
          'command=%s named_env=%s: verify() %s', mode, x, f, c, s, ne,
          'accepted' if ok else 'refused')
    if ok:
        check(d.mode == mode, 'mode %s became %s', mode, d.mode)
        _roundtrip(d, rp.TaskDescription)


# deprecated -> replacement
INT_ALIAS = [('cpu_processes', 'ranks'), ('cpu_threads', 'cores_per_rank'),
             ('gpu_processes', 'gpus_per_rank'),
             ('lfs_per_process', 'lfs_per_rank'),
             ('mem_per_process', 'mem_per_rank')]
STR_ALIAS = [('cpu_thread_type', 'threading_type'),
             ('gpu_process_type', 'gpu_type'), ('scheduler', 'raptor_id'),
             ('worker_file', 'raptor_file'), ('worker_class', 'raptor_class')]


def _aliases(ints, strs, cur):
    fd   = {'uid': 't0', 'executable': '/bin/true'}
    for (old, new), v in zip(INT_ALIAS, ints):
        if v:   fd[old] = v
        if cur: fd[new] = 7
    for (old, new), s in zip(STR_ALIAS, strs):
        if s:   fd[old] = 'old_' + old
        if cur: fd[new] = 'cur_' + new
    d = rp.TaskDescription(from_dict=fd)
    defaults = {new: d[new] for _, new in INT_ALIAS + STR_ALIAS}
    real(d.verify)
    reach()
    for (old, new), v in zip(INT_ALIAS, ints):
        if v:
            check(d[new] == v, '%s=%s not mapped onto %s (%s)',
                  old, v, new, d[new])
            check(not d[old], 'deprecated %s not cleared: %s', old, d[old])
        else:
            check(d[new] == defaults[new], '%s changed to %s', new, d[new])
    for (old, new), s in zip(STR_ALIAS, strs):
        if s:
            check(d[new] == 'old_' + old, '%s=%r not mapped onto %s (%r)',
                  old, 'old_' + old, new, d[new])
            check(not d[old], 'deprecated %s not cleared: %r', old, d[old])
        else:
            check(d[new] == defaults[new], '%s changed to %r', new, d[new])
    check(d.use_mpi == bool(d.ranks - 1), 'use_mpi default wrong')
    _roundtrip(d, rp.TaskDescription)


_AL_FUNCS = ['radical/pilot/task_description.py:TaskDescription._verify']


@obligation(params={'pm': (0, 31), 'cur': 'bool', 's4': 'bool'},
            timeout={'quick': 400, 'thorough': 900},
            partition={'quick': ('pm', 8), 'thorough': ('pm', 8)},
            funcs=_AL_FUNCS,
            bounds='5 deprecated integer attributes present (value 3) / '
                   'absent (bit mask pm); replacements all explicitly set or '
                   'all default; worker_class present/absent')
def h_td_int_aliases(pm, cur, s4):
    """deprecated integer names map onto replacements, in any combination"""
    _aliases([3 if (pm >> i) & 1 else 0 for i in range(5)],
             [False, False, False, False, s4], cur)


@obligation(params={'which': (0, 3), 'v': (0, 10 ** 6), 'cur': 'bool'},
            timeout={'quick': 400, 'thorough': 900},
            partition={'quick': ('which', 4), 'thorough': ('which', 4)},
            funcs=_AL_FUNCS,
            bounds='one deprecated integer attribute (cpu_processes, '
                   'cpu_threads, lfs_per_process, mem_per_process; symbolic '
                   'index) carries a symbolic value in [0, 10^6]; the others '
                   'are absent.  gpu_processes is only exercised with the '
                   'concrete value 3 (h_td_int_aliases): float(symbolic int) '
                   'is inconclusive in CrossHair')
def h_td_int_value(which, v, cur):
    """the replacement receives exactly the deprecated attribute's value"""
    ints = [0, 0, 0, 0, 0]
    ints[[0, 1, 3, 4][which]] = v
    _aliases(ints, [False] * 5, cur)


@obligation(params={'sm': (0, 31), 'cur': 'bool', 'p0': 'bool'},
            timeout={'quick': 400, 'thorough': 900},
            partition={'quick': ('sm', 8), 'thorough': ('sm', 8)},
            funcs=_AL_FUNCS,
            bounds='5 deprecated string attributes present/absent (bit mask '
                   'sm); replacements all set or all default; cpu_processes '
                   'present/absent')
def h_td_str_aliases(sm, cur, p0):
    """deprecated string names map onto replacements with the same value"""
    _aliases([3 if p0 else 0, 0, 0, 0, 0],
             [bool((sm >> i) & 1) for i in range(5)], cur)


@obligation(params={'res': 'bool', 'nodes': (0, 10 ** 6), 'cores': (0, 10 ** 6),
                    'gpus': (0, 10 ** 6), 'backup': (0, 10 ** 6)},
            timeout={'quick': 200, 'thorough': 400},
            funcs=['radical/pilot/pilot_description.py:PilotDescription._verify'],
            bounds='resource present/absent; nodes, cores, gpus, backup_nodes '
                   'symbolic in [0, 10^6]')
def h_pd_verify(res, nodes, cores, gpus, backup):
    """pilot description: size given as nodes or as cores/gpus, never both"""
    fd = {'uid': 'p0', 'nodes': nodes, 'cores': cores, 'gpus': gpus,
          'backup_nodes': backup}
    if res: fd['resource'] = 'local.localhost'
    d = rp.PilotDescription(from_dict=fd)
    must_fail = (not res) or (backup and not nodes) \
             or (not nodes and not cores) \
             or (nodes and (cores or gpus))
    try:
        d.verify()
        ok = True
    except ValueError:
        ok = False
    reach()
    check(ok == (not must_fail), 'nodes=%s cores=%s gpus=%s backup=%s '
          'resource=%s: verify() %s', nodes, cores, gpus, backup, res,
          'accepted' if ok else 'refused')
    if ok:
        check(d.nodes == nodes and d.cores == cores and d.gpus == gpus
              and d.backup_nodes == backup, 'sizes changed by verify')
        _roundtrip(d, rp.PilotDescription)


# ------------------------------------------------------------------------------
# D2: slot conversion
#
NODE_NAMES = ['node0', 'node1', 'node2']


def _idx(entries):
    # indices named by a core/gpu list in any of the accepted forms
    out = []
    for e in entries or []:
        if isinstance(e, dict):              out.append(e['index'])
        elif isinstance(e, (list, tuple)):   out.append(e[0])
        else:                                out.append(e)
    return out


def _mask_list(mask, n):
    return [i for i in range(n) if (mask >> i) & 1]


def _mk_entries(idx, form):
    if form == 0: return list(idx)                                  # ints
    if form == 1: return [{'index': i, 'occupation': 1.0} for i in idx]
    if form == 2: return [RO(index=i, occupation=1.0) for i in idx]
    return [(i, 1.0) for i in idx]                                  # pairs


_SLOT_FUNCS = ['radical/pilot/utils/misc.py:convert_slots_to_new',
               'radical/pilot/utils/misc.py:convert_slots_to_old',
               'radical/pilot/resource_config.py:Slot.__init__']


@obligation(params={'cm0': (0, 15), 'gm0': (0, 3), 'n0': (0, 2),
                    'form': (0, 3)},
            timeout={'quick': 400, 'thorough': 900},
            partition={'quick': ('cm0', 8), 'thorough': ('cm0', 16)},
            funcs=_SLOT_FUNCS,
            bounds='1 slot; core index set = bit mask over 4 cores, GPU set = '
                   'mask over 2 GPUs, node index 0..2; entry form: int / dict '
                   '/ RO / (index, occupation) pair')
def h_slots(cm0, gm0, n0, form):
    """old->new and new->old keep node, core indices and GPU indices"""
    _slots([(cm0, gm0, n0)], form)


@obligation(params={'cm0': (0, 3), 'gm0': (0, 1), 'n0': (0, 1),
                    'cm1': (0, 3), 'gm1': (0, 1), 'n1': (0, 1),
                    'form': (0, 3)},
            timeout={'quick': 400, 'thorough': 900},
            partition={'quick': ('cm0', 4), 'thorough': ('cm0', 4)},
            shapes={'quick': [{'small': True}], 'thorough': [{'small': False}]},
            funcs=_SLOT_FUNCS,
            bounds='2 slots; core mask over 2 cores, GPU mask over 1 GPU, node '
                   'index 0..1 each (quick: second slot on node 1, first on '
                   'node 0); 4 entry forms')
def h_slots2(cm0, gm0, n0, cm1, gm1, n1, form, small=False):
    """two slots are converted independently and in order"""
    if small and (n0 != 0 or n1 != 1): return
    _slots([(cm0, gm0, n0), (cm1, gm1, n1)], form)


def _slots(specs, form):
    old = []
    for cm, gm, n in specs:
        old.append({'cores': _mk_entries(_mask_list(cm, 4), form),
                    'gpus' : _mk_entries(_mask_list(gm, 2), form),
                    'lfs': 0, 'mem': 0, 'node_index': n,
                    'node_name': NODE_NAMES[n]})
    new = real(convert_slots_to_new, old)
    reach()
    check(len(new) == len(specs), 'slot count changed')
    for (cm, gm, n), s in zip(specs, new):
        check(s.get('version', 0) >= 1, 'converted slot has no version')
        check(s['node_index'] == n and s['node_name'] == NODE_NAMES[n],
              'node changed: %s/%s', s['node_index'], s['node_name'])
        check(_idx(s['cores']) == _mask_list(cm, 4), 'core indices %s != %s',
              _idx(s['cores']), _mask_list(cm, 4))
        check(_idx(s['gpus']) == _mask_list(gm, 2), 'gpu indices %s != %s',
              _idx(s['gpus']), _mask_list(gm, 2))
    # already-new slots pass unchanged
    again = real(convert_slots_to_new, new)
    check(again == new, 'new slots changed by convert_slots_to_new')
    back = real(convert_slots_to_old, new)
    check(len(back) == len(specs), 'slot count changed (to old)')
    for (cm, gm, n), s in zip(specs, back):
        check(not s.get('version'), 'old slot carries a version')
        check(s['node_index'] == n and s['node_name'] == NODE_NAMES[n],
              'node changed (to old)')
        check(_idx(s['cores']) == _mask_list(cm, 4), 'core indices (to old) '
              '%s != %s', _idx(s['cores']), _mask_list(cm, 4))
        check(_idx(s['gpus']) == _mask_list(gm, 2), 'gpu indices (to old) '
              '%s != %s', _idx(s['gpus']), _mask_list(gm, 2))
    # old slots pass unchanged through convert_slots_to_old
    check(real(convert_slots_to_old, back) == back, 'old slots changed')


# ------------------------------------------------------------------------------
# D3: function tasks (PythonTask).  dill / msgpack are C extensions at which
# CrossHair concretises: the *shape* of the call (how many positional and
# keyword arguments, which entry point) is the symbolic part, values are
# concrete.
#
def _payload(a=1, b=2, *rest, k=10, **kw):
    return ('payload', a, b, rest, k, sorted(kw.items()))


@obligation(params={'nargs': (0, 3), 'nkw': (0, 2), 'via': (0, 1)},
            timeout={'quick': 300, 'thorough': 600},
            funcs=['radical/pilot/pytask.py:PythonTask.__new__',
                   'radical/pilot/pytask.py:PythonTask.get_func_attr',
                   'radical/pilot/pytask.py:PythonTask.pythontask'],
            bounds='function call with 0..3 positional and 0..2 keyword '
                   'arguments, encoded via PythonTask(f, args, kwargs) or via '
                   'the @pythontask decorator; argument values concrete '
                   '(serialisation is a C extension)')
def h_pytask(nargs, nkw, via):
    """an encoded function task decodes to a call with the same result"""
    nargs, nkw, via = conc(nargs, 0, 3), conc(nkw, 0, 2), conc(via, 0, 1)
    args   = tuple([7, 'x', 3.5][:nargs])
    kwargs = dict(list({'k': 99, 'z': [1, 2]}.items())[:nkw])
    want   = _payload(*args, **kwargs)
    if via == 0:
        enc = real(rp.PythonTask, _payload, args, kwargs)
    else:
        enc = real(rp.PythonTask.pythontask(_payload), *args, **kwargs)
    check(isinstance(enc, str), 'encoded task is a %s', type(enc).__name__)
    func, a, kw = real(rp.PythonTask.get_func_attr, enc)
    reach()
    got = func(*a, **(kw or {}))
    check(got == want, 'decoded call returns %r, direct call %r (args %r '
          'kwargs %r)', got, want, a, kw)


# ------------------------------------------------------------------------------
# D1c: attribute values survive verify()
#
VALS = [('pre_exec',  ['module load x', {'0': 'export A=1', '1': ['a', 'b']}]),
        ('post_exec', ['echo done', {'0': 'rm -f tmp'}]),
        ('pre_launch', ['date']),
        ('environment', {'A': '1', 'B': 'two words'}),
        ('arguments', ['-n', '1', '', 'a b']),
        ('tags', {'colocate': 'g1', 'exclusive': True}),
        ('input_staging', [{'source': 'a', 'target': 'b', 'action': 'Copy'}]),
        ('metadata', {'k': [1, 2, {'x': None}]}),
        ('services', ['service.0001']),
        ('timeout', 12.5)]


@obligation(params={'i': (0, len(VALS) - 1), 'j': (0, len(VALS) - 1)},
            partition={'quick': ('i', 10), 'thorough': ('i', 10)},
            timeout={'quick': 300, 'thorough': 600},
            funcs=['radical/pilot/task_description.py:TaskDescription._verify'],
            bounds='two attributes out of 10 (lists with per-rank dictionaries, '
                   'environment, arguments incl. empty strings, tags, staging '
                   'dicts, nested metadata, services, timeout) set to '
                   'representative values')
def h_td_values(i, j):
    """verify() loses nothing: list / dict valued attributes keep their value"""
    i, j = conc(i, 0, len(VALS) - 1), conc(j, 0, len(VALS) - 1)
    import copy
    fd = {'uid': 't0', 'executable': '/bin/true'}
    for k, v in (VALS[i], VALS[j]):
        fd[k] = copy.deepcopy(v)
    d = rp.TaskDescription(from_dict=fd)
    real(d.verify)
    reach()
    for k, v in (VALS[i], VALS[j]):
        check(d[k] == v, 'verify() changed %s: %r -> %r', k, v, d[k])
    _roundtrip(d, rp.TaskDescription)


# ------------------------------------------------------------------------------
# D3b: several functions encoded one after the other (same module / qualname:
# closures of one factory, a re-defined function): each decodes to *its* function
#
def _make_scaler(factor):
    def scale(x):
        return x * factor + 1
    return scale


@obligation(params={'via': (0, 1), 'order': (0, 5)},
            timeout={'quick': 300, 'thorough': 600},
            funcs=['radical/pilot/pytask.py:PythonTask.__new__',
                   'radical/pilot/pytask.py:PythonTask.get_func_attr',
                   'radical/pilot/pytask.py:PythonTask.pythontask'],
            bounds='three closures of one factory (same module and qualified '
                   'name) encoded in any of the 6 orders via PythonTask or the '
                   'decorator, each decoded afterwards')
def h_pytask_sequence(via, order):
    """what was encoded earlier does not leak into a later encoding"""
    import itertools
    via, order = conc(via, 0, 1), conc(order, 0, 5)
    perm  = list(itertools.permutations([2, 3, 10]))[order]
    encs  = []
    for f in perm:
        fn = _make_scaler(f)
        if via == 0: encs.append((f, real(rp.PythonTask, fn, (5,), {})))
        else:        encs.append((f, real(rp.PythonTask.pythontask(fn), 5)))
    reach()
    for f, enc in encs:
        func, a, kw = real(rp.PythonTask.get_func_attr, enc)
        got = func(*a, **(kw or {}))
        check(got == 5 * f + 1, 'function with factor %s encoded %s in the '
              'sequence %s decodes to a call returning %s, expected %s',
              f, perm.index(f) + 1, perm, got, 5 * f + 1)


# ------------------------------------------------------------------------------
# D1d: explicitly set scalar attributes keep their value through verify()
#
SCALARS = [('use_mpi', False), ('use_mpi', True), ('cores_per_rank', 3),
           ('gpus_per_rank', 0.5), ('threading_type', 'OpenMP'),
           ('gpu_type', 'CUDA'), ('lfs_per_rank', 7), ('mem_per_rank', 9),
           ('priority', 2), ('stdout', 'o.txt'), ('stderr', 'e.txt'),
           ('sandbox', 'sbox'), ('named_env', 've0'), ('restartable', True),
           ('cleanup', True), ('pilot', 'pilot.0007'), ('startup_timeout', 4.0),
           ('timeout', 0.0), ('name', 'n0'), ('ranks', 1)]


@obligation(params={'s': (0, len(SCALARS) - 1), 'rk': (0, 4), 'md': (0, 3)},
            shapes={'quick': [{'_ranges': {'md': (0, 1)}}], 'thorough': [{}]},
            partition={'quick': ('s', len(SCALARS)),
                       'thorough': ('s', len(SCALARS))},
            timeout={'quick': 300, 'thorough': 600},
            funcs=['radical/pilot/task_description.py:TaskDescription._verify'],
            bounds='one of 20 explicitly set scalar attribute values (both '
                   'truth values of use_mpi, fractional GPUs, zero time-out, '
                   '...) x rank count unset / ranks 2 / ranks 4 / deprecated '
                   'cpu_processes 2 / 4 x 4 task modes (quick: executable and '
                   'function mode)')
def h_td_scalars(s, rk, md):
    """verify() keeps every explicitly set scalar, whatever else is set"""
    s, rk, md = conc(s, 0, len(SCALARS) - 1), conc(rk, 0, 4), conc(md, 0, 3)
    key, val = SCALARS[s]
    mode = [rp.TASK_EXECUTABLE, rp.TASK_FUNCTION, rp.TASK_PROC,
            rp.TASK_SHELL][md]
    fd = {'uid': 't0', 'mode': mode}
    fd.update({rp.TASK_EXECUTABLE: {'executable': '/bin/true'},
               rp.TASK_FUNCTION  : {'function': 'f'},
               rp.TASK_PROC      : {'executable': '/bin/true'},
               rp.TASK_SHELL     : {'command': 'true'}}[mode])
    ranks = None
    if rk and key != 'ranks':
        ranks = [2, 4, 2, 4][rk - 1]
        fd['ranks' if rk <= 2 else 'cpu_processes'] = ranks
    fd[key] = val
    d = rp.TaskDescription(from_dict=dict(fd))
    try:
        d.verify()
    except ValueError as e:
        # a combination the mode does not support (e.g. named_env for function
        # tasks) is refused: nothing is lost silently
        trace('refused', repr(e))
        return
    reach()
    check(d[key] == val and type(d[key]) == type(val), 'verify() changed the '
          'explicitly set %s = %r into %r (description %s)', key, val, d[key],
          fd)
    if ranks is not None:
        check(d['ranks'] == ranks, 'ranks %r after verify(), %s requested',
              d['ranks'], ranks)
    real(d.verify)
    check(d[key] == val, 'second verify() changed %s = %r into %r', key, val,
          d[key])
    _roundtrip(d, rp.TaskDescription)
