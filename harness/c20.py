"""
C20 - raptor workers and masters account for every request.

W1  DefaultWorker._alloc / _dealloc           (inductive step)
W2  DefaultWorker._request_cb / _result_cb    (streams, failures)
M1  Master._result_cb / _submit_tasks          (target state, routing)
X1  Worker._dispatch_func/_dispatch_eval/_dispatch_exec
    (return value, captured output, exit code, environment restored)
Processes spawned by _dispatch_proc/_dispatch_shell are outside the claim.
"""

import io
import os
import sys
import asyncio

import radical.utils as ru
import radical.pilot.states as rps
import radical.pilot.constants as rpc
import radical.pilot.raptor.worker_default as m_wd
import radical.pilot.raptor.worker         as m_w
import radical.pilot.raptor.master         as m_m
import radical.pilot.task_description      as m_td

from vfw.api import obligation, check, reach, trace, real, conc, Null
from harness.common import FakeLock, FakeEvent

META = {
    'explanation':
        'Bounded symbolic execution (CrossHair+z3) of the real raptor worker '
        'and master code: (W1) one _alloc/_dealloc step from an arbitrary '
        'occupancy of the worker\'s cores/GPUs; (W2) streams of up to 3 '
        'requests through _request_cb with symbolic core/GPU demands, a '
        'symbolic completion order (the wait loop\'s sleep lets a symbolically '
        'chosen running request finish through the real _result_cb) and a '
        'symbolic process-start failure; (M1) Master._result_cb with '
        'absent/None/symbolic exit code and Master._submit_tasks routing for '
        'every task mode; (X1) the func/eval/exec dispatchers with payloads '
        'that return a symbolic integer, print, raise or modify the '
        'environment.',
    'assumes': ['request demands are within the worker size (the property\'s '
                'quantifier); _dispatch_proc/_dispatch_shell spawn real '
                'processes and are outside the claim',
                'mp.Process is faked: start() registers a pid or raises']}


class Putter(object):
    def __init__(self): self.items = []
    def put(self, x): self.items.extend(ru.as_list(x))


class FakeProcCls(object):
    """stands in for multiprocessing.Process"""
    fail_at = None          # index of the start() call which raises
    started = 0
    def __init__(self, target=None, args=()):
        self.target, self.args, self.pid = target, args, None
    def start(self):
        cls = FakeProcCls
        idx = cls.started
        cls.started += 1
        if cls.fail_at is not None and idx == cls.fail_at:
            raise OSError('fork failed')
        self.pid = 5000 + idx
        self.args[0]['pid'] = self.pid      # what _dispatch does in the child


class FakeMP(object):
    Process = FakeProcCls


class SleepHook(object):
    def __init__(self): self.hook = None; self.calls = 0
    def sleep(self, d):
        self.calls += 1
        if self.calls > 12:
            raise RuntimeError('wait loop does not terminate')
        if self.hook: self.hook()
    def time(self): return 0.0


def mk_worker(n_cores, n_gpus, cores_occ=None, gpus_occ=None):
    w = object.__new__(m_wd.DefaultWorker)
    w._uid, w._log, w._prof = 'worker.0000', Null(), Null()
    w._n_cores, w._n_gpus = n_cores, n_gpus
    w._rlock, w._plock = FakeLock(), FakeLock()
    w._resources = {'cores': list(cores_occ or [0] * n_cores),
                    'gpus' : list(gpus_occ  or [0] * n_gpus)}
    w._res_evt  = FakeEvent()
    w._pool     = dict()
    w._res_put  = Putter()
    w._task_env = {}
    return w


# ------------------------------------------------------------------------------
@obligation(params={'cm': (0, 15), 'gm': (0, 3), 'cores': (1, 4),
                    'gpus': (0, 2)},
            partition={'quick': ('cm', 8), 'thorough': ('cm', 16)},
            timeout={'quick': 200, 'thorough': 400},
            funcs=['radical/pilot/raptor/worker_default.py:DefaultWorker._alloc',
                   'radical/pilot/raptor/worker_default.py:DefaultWorker._dealloc'],
            bounds='worker of 4 cores x 2 GPUs, arbitrary occupancy (bit '
                   'masks), request of 1..4 cores and 0..2 GPUs')
def h_alloc(cm, gm, cores, gpus):
    """a grant uses only free, distinct cores/GPUs; refusal changes nothing"""
    cm, gm, cores, gpus = conc(cm, 0, 15), conc(gm, 0, 3), conc(cores, 1, 4), \
                          conc(gpus, 0, 2)
    occ_c = [(cm >> i) & 1 for i in range(4)]
    occ_g = [(gm >> i) & 1 for i in range(2)]
    w = mk_worker(4, 2, occ_c, occ_g)
    task = {'uid': 'r0', 'cores': cores, 'gpus': gpus}
    ok = real(w._alloc, task)
    if not ok:
        check(w._resources == {'cores': occ_c, 'gpus': occ_g},
              'refused request changed the occupancy: %s', w._resources)
        check('slots' not in task, 'refused request carries slots')
        check(cores > occ_c.count(0) or gpus > occ_g.count(0),
              'request for %s cores / %s gpus refused although %s / %s are '
              'free', cores, gpus, occ_c.count(0), occ_g.count(0))
        return
    reach()
    s = task['slots'][0]
    check(len(s['cores']) == cores and len(set(s['cores'])) == cores,
          'granted cores %s, requested %s', s['cores'], cores)
    check(len(s['gpus']) == gpus and len(set(s['gpus'])) == gpus,
          'granted gpus %s, requested %s', s['gpus'], gpus)
    check(all(occ_c[i] == 0 for i in s['cores']), 'busy core granted: %s on %s',
          s['cores'], occ_c)
    check(all(occ_g[i] == 0 for i in s['gpus']), 'busy gpu granted: %s on %s',
          s['gpus'], occ_g)
    exp_c = [1 if (occ_c[i] or i in s['cores']) else 0 for i in range(4)]
    exp_g = [1 if (occ_g[i] or i in s['gpus']) else 0 for i in range(2)]
    check(w._resources == {'cores': exp_c, 'gpus': exp_g}, 'occupancy after '
          'grant %s, expected %s/%s', w._resources, exp_c, exp_g)
    real(w._dealloc, task)
    check(w._resources == {'cores': occ_c, 'gpus': occ_g}, 'release does not '
          'restore the occupancy: %s', w._resources)


# ------------------------------------------------------------------------------
@obligation(params={'cc': (0, 8), 'g0': (0, 1), 'g1': (0, 1),
                    'c2': (1, 3), 'g2': (0, 1), 'pick': (0, 3),
                    'fail_at': (0, 3), 'bulk': 'bool'},
            partition={'quick': ('cc', 9), 'thorough': ('cc', 9)},
            shapes={'quick': [{'small': True}], 'thorough': [{'small': False}]},
            timeout={'quick': 300, 'thorough': 1200},
            funcs=['radical/pilot/raptor/worker_default.py:DefaultWorker.' + n
                   for n in ('_request_cb', '_result_cb', '_alloc', '_dealloc')],
            bounds='worker of 3 cores x 1 GPU; 3 requests with 1..3 cores and '
                   '0..1 GPUs each, arriving as one bulk or one by one; when a '
                   'request has to wait, a running request chosen by `pick` '
                   'finishes; the process start of request `fail_at` (0..2, 3 = '
                   'none) fails; remaining requests finish in order',
            stubs=['multiprocessing.Process -> fake', 'time.sleep -> hook',
                   'result putter -> list'])
def h_requests(cc, g0, g1, c2, g2, pick, fail_at, bulk, small=False):
    """no two running requests share a core/GPU; everything is given back"""
    if small and (g2 or pick > 1): return
    cc = conc(cc, 0, 8)
    c0, c1 = 1 + cc // 3, 1 + cc % 3
    dem = [(conc(c0, 1, 3), conc(g0, 0, 1)), (conc(c1, 1, 3), conc(g1, 0, 1)),
           (conc(c2, 1, 3), conc(g2, 0, 1))]
    pick, fail_at = conc(pick, 0, 3), conc(fail_at, 0, 3)
    w = mk_worker(3, 1)
    FakeProcCls.started = 0
    FakeProcCls.fail_at = None if fail_at == 3 else fail_at
    m_wd.mp = FakeMP
    sl = SleepHook()
    m_wd.time = sl
    tasks = [{'uid': 'r%d' % i, 'cores': c, 'gpus': g,
              'description': {}} for i, (c, g) in enumerate(dem)]

    def running():
        return [t for t in tasks if t.get('pid') in w._pool]

    def check_disjoint():
        seen_c, seen_g = set(), set()
        for t in running():
            s = t['slots'][0]
            for c in s['cores']:
                check(c not in seen_c, 'core %s used by two running requests',
                      c)
                seen_c.add(c)
            for g in s['gpus']:
                check(g not in seen_g, 'gpu %s used by two running requests', g)
                seen_g.add(g)
        busy_c = {i for i, v in enumerate(w._resources['cores']) if v}
        busy_g = {i for i, v in enumerate(w._resources['gpus']) if v}
        check(busy_c == seen_c and busy_g == seen_g, 'occupancy %s does not '
              'match the running requests (cores %s gpus %s)', w._resources,
              seen_c, seen_g)

    def finish(t):
        real(w._result_cb, (t, 'out', 'err', 0, None, (None, None)))

    def hook():
        r = running()
        if r:
            finish(r[pick % len(r)])
            check_disjoint()
    sl.hook = hook

    if bulk:
        real(w._request_cb, tasks)
        check_disjoint()
    else:
        for t in tasks:
            real(w._request_cb, [t])
            check_disjoint()
    for t in list(running()):
        finish(t)
    reach()
    trace('demands', dem, 'results', [t['uid'] for t in w._res_put.items])
    check(w._resources == {'cores': [0, 0, 0], 'gpus': [0]}, 'resources not '
          'given back at quiescence: %s', w._resources)
    check(not w._pool, 'process pool not empty: %s', w._pool)
    for t in tasks:
        n = sum(1 for r in w._res_put.items if r['uid'] == t['uid'])
        check(n == 1, 'request %s reported %s times', t['uid'], n)
    for i, t in enumerate(tasks):
        r = [r for r in w._res_put.items if r['uid'] == t['uid']][0]
        if fail_at == i:
            check(r.get('exception') and r.get('exit_code') != 0, 'failed '
                  'start of %s reported as %s / %s', t['uid'],
                  r.get('exception'), r.get('exit_code'))
        else:
            check(r.get('exit_code') == 0, 'request %s: exit code %s',
                  t['uid'], r.get('exit_code'))


# ------------------------------------------------------------------------------
MODES = [None, m_td.TASK_EXECUTABLE, m_td.TASK_FUNC, m_td.TASK_METH,
         m_td.TASK_EVAL, m_td.TASK_EXEC, m_td.TASK_PROC, m_td.TASK_SHELL]


def mk_master():
    m = object.__new__(m_m.Master)
    m._uid, m._log, m._prof = 'master.0000', Null(), Null()
    m._task_service_data = {}
    m._psbox, m._ssbox, m._rsbox, m._pid = '/p', '/s', '/r', 'pilot.0000'
    m._req_put = Putter()
    class S(object):
        def _get_task_sandbox(self, task, pilot):
            return 'file://localhost/p/%s' % task['uid']
    m._session = S()
    m.advanced, m.published = [], []
    def _advance(things, state=None, publish=True, push=False, **kw):
        for t in ru.as_list(things):
            m.advanced.append((t['uid'], state, push, t.get('target_state')))
    m.advance = _advance
    m.publish = lambda ch, msg, **k: m.published.append((ch, msg))
    return m


@obligation(params={'ec_kind': (0, 2), 'ec': (-300, 300), 'preset': (0, 2),
                    'two': 'bool', 'cb_raises': 'bool'},
            timeout={'quick': 200, 'thorough': 400},
            funcs=['radical/pilot/raptor/master.py:Master._result_cb'],
            bounds='1..2 results; exit code absent / None / symbolic int in '
                   '[-300,300]; target_state preset none / DONE / FAILED; the '
                   'application result_cb optionally raises')
def h_master_result(ec_kind, ec, preset, two, cb_raises):
    """DONE iff exit code 0; each result advanced exactly once"""
    ec_kind, preset = conc(ec_kind, 0, 2), conc(preset, 0, 2)
    m = mk_master()
    if cb_raises:
        def _rcb(tasks): raise RuntimeError('app callback failed')
        m.result_cb = _rcb
    t = {'uid': 'r0', 'type': 'task'}
    if ec_kind == 1: t['exit_code'] = None
    if ec_kind == 2: t['exit_code'] = ec
    if preset: t['target_state'] = [rps.DONE, rps.FAILED][preset - 1]
    tasks = [t]
    if two:
        tasks.append({'uid': 'r1', 'type': 'task', 'exit_code': 0})
    real(m._result_cb, tasks)
    reach()
    if preset:
        want = [rps.DONE, rps.FAILED][preset - 1]
    else:
        want = rps.DONE if (ec_kind == 2 and ec == 0) else rps.FAILED
    check(t['target_state'] == want, 'exit code %s (kind %s) -> %s, expected '
          '%s', ec, ec_kind, t['target_state'], want)
    for x in tasks:
        adv = [a for a in m.advanced if a[0] == x['uid']]
        check(len(adv) == 1 and adv[0][1] == rps.AGENT_STAGING_OUTPUT_PENDING
              and adv[0][2], 'result %s advanced %s', x['uid'], adv)
    if two:
        check(tasks[1]['target_state'] == rps.DONE, 'second result %s',
              tasks[1]['target_state'])


@obligation(params={'m0': (0, 7), 'm1': (0, 7)},
            timeout={'quick': 200, 'thorough': 400},
            funcs=['radical/pilot/raptor/master.py:Master._submit_tasks',
                   'radical/pilot/raptor/master.py:Master._submit_raptor_tasks',
                   'radical/pilot/raptor/master.py:Master.'
                   '_submit_executable_tasks'],
            bounds='2 tasks, each with one of the 8 mode values (absent, '
                   'executable, function, method, eval, exec, proc, shell)')
def h_master_routing(m0, m1):
    """executable requests go to the agent pipeline, the others to workers"""
    m0, m1 = conc(m0, 0, 7), conc(m1, 0, 7)
    m = mk_master()
    tasks = []
    for i, mi in enumerate((m0, m1)):
        d = {'uid': 'r%d' % i, 'ranks': 1, 'cores_per_rank': 1}
        if MODES[mi] is not None: d['mode'] = MODES[mi]
        tasks.append({'uid': 'r%d' % i, 'type': 'task', 'description': d})
    real(m._submit_tasks, tasks)
    reach()
    for t, mi in zip(tasks, (m0, m1)):
        exe = MODES[mi] in (None, m_td.TASK_EXECUTABLE)
        to_worker = sum(1 for x in m._req_put.items if x['uid'] == t['uid'])
        to_agent  = sum(1 for a in m.advanced if a[0] == t['uid'] and
                        a[1] == rps.AGENT_STAGING_INPUT_PENDING and a[2])
        check(to_worker == (0 if exe else 1) and to_agent == (1 if exe else 0),
              'mode %s: sent to workers %s times, to the agent pipeline %s '
              'times', MODES[mi], to_worker, to_agent)


# ------------------------------------------------------------------------------
# X1 dispatchers
#
_PAY = {}


def payload_fn(kind, v):
    # kind: 0 return v, 1 print + return v, 2 raise, 3 set env + return v,
    #       4 set env + raise, 5 write stderr + return v
    if kind in (1,):    print('hello-out')
    if kind in (5,):    sys.stderr.write('hello-err')
    if kind in (3, 4):  os.environ['RP_VERIF_X'] = 'changed'
    if kind in (3, 4):  os.environ.pop('RP_VERIF_KEEP', None)
    if kind in (2, 4):  raise ValueError('payload failed')
    return v


m_w.verif_payload = payload_fn      # resolvable by name (globals of worker.py)


def mk_xworker():
    w = object.__new__(m_w.Worker)
    w._uid, w._log, w._prof = 'worker.0000', Null(), Null()
    w._task_env = {}
    return w


@obligation(params={'disp': (0, 2), 'kind': (0, 5), 'v': (-1000, 1000),
                    'tenv': 'bool'},
            partition={'quick': ('kind', 6), 'thorough': ('kind', 6)},
            timeout={'quick': 200, 'thorough': 400},
            funcs=['radical/pilot/raptor/worker.py:Worker._dispatch_func',
                   'radical/pilot/raptor/worker.py:Worker._dispatch_eval',
                   'radical/pilot/raptor/worker.py:Worker._dispatch_exec'],
            bounds='dispatcher func / eval / exec; payload: returns a symbolic '
                   'int, prints, writes stderr, raises, modifies os.environ '
                   '(sets one key, removes another); optional per-task '
                   'environment')
def h_dispatch(disp, kind, v, tenv):
    """(out, err, ret, val, exc) tell the truth; env and stdio are restored"""
    disp, kind = conc(disp, 0, 2), conc(kind, 0, 5)
    w = mk_xworker()
    # the dispatchers replace os.environ by a plain dict copy: start every
    # path from the same kind of object
    os.environ = dict(os.environ)
    os.environ['RP_VERIF_KEEP'] = 'keep'
    os.environ.pop('RP_VERIF_X', None)
    os.environ.pop('RP_VERIF_T', None)
    env0 = dict(os.environ)
    out0, err0 = sys.stdout, sys.stderr
    descr = {'environment': {'RP_VERIF_T': 't'} if tenv else {}}
    _PAY['kind'], _PAY['v'] = kind, v
    m_w._verif_pay = _PAY
    if disp == 0:
        descr.update({'function': 'verif_payload', 'args': [kind, v],
                      'kwargs': {}})
        def _drive():
            c = w._dispatch_func({'uid': 'r0', 'description': descr})
            try:
                c.send(None)
            except StopIteration as e:
                return e.value
            raise RuntimeError('dispatcher suspended')
        res = real(_drive)
    elif disp == 1:
        descr['code'] = "verif_payload(_verif_pay['kind'], _verif_pay['v'])"
        res = real(w._dispatch_eval, {'uid': 'r0', 'description': descr})
    else:
        descr['code'] = "import radical.pilot.raptor.worker as _w\n" \
                        "return _w.verif_payload(_w._verif_pay['kind'], " \
                        "_w._verif_pay['v'])"
        res = real(w._dispatch_exec, {'uid': 'r0', 'description': descr})
    reach()
    out, err, ret, val, exc = res
    fails = kind in (2, 4)
    check((ret == 0) == (not fails), 'exit code %s for a payload that %s',
          ret, 'raised' if fails else 'returned')
    if fails:
        check(ret != 0 and exc and exc[0] and 'payload failed' in exc[0],
              'failure reported as ret=%s exc=%s', ret, exc)
        check(val is None, 'failed call returned %s', val)
    else:
        check(val == v, 'return value %s, payload returned %s', val, v)
        check(exc == (None, None) or exc == [None, None], 'exception %s for a '
              'successful call', exc)
    check(('hello-out' in (out or '')) == (kind == 1), 'captured stdout %r',
          out)
    check(('hello-err' in (err or '')) == (kind == 5), 'captured stderr %r',
          err)
    check(sys.stdout is out0 and sys.stderr is err0, 'stdio not restored')
    check(dict(os.environ) == env0, 'environment not restored: %s',
          {k: (env0.get(k), os.environ.get(k))
           for k in set(env0) | set(os.environ)
           if env0.get(k) != os.environ.get(k)})


# ------------------------------------------------------------------------------
# the whole chain of one request: DefaultWorker._dispatch/_worker_proc ->
# result queue -> DefaultWorker._result_cb -> Master._result_cb
#
class SyncProc(object):
    """multiprocessing.Process stand-in: start() runs the target at once"""
    def __init__(self, target=None, args=()):
        self.target, self.args, self.daemon = target, args, False
    def start(self): self.target(*self.args)
    def join(self, timeout=None): pass
    def is_alive(self): return False
    def terminate(self): pass


class SyncMP(object):
    Process = SyncProc
    @staticmethod
    def Lock(): return FakeLock()


class ResQueue(object):
    def __init__(self): self.items = []
    def put(self, x): self.items.append(x)
    def close(self): pass
    def join_thread(self): pass


class FakeAsyncio(object):
    @staticmethod
    def run(coro):
        try:
            coro.send(None)
        except StopIteration as e:
            return e.value
        raise RuntimeError('dispatcher suspended')


class FakeWdOS(object):
    def __init__(self): self.environ = dict(os.environ)
    def chdir(self, p): pass
    def getpid(self): return 4321
    def __getattr__(self, k): return getattr(os, k)


class FakeWdRU(object):
    def rec_makedir(self, p): pass
    def __getattr__(self, k): return getattr(ru, k)


# request kinds: (mode, description extras, succeeds?)
def _req(kind):
    if kind == 0:
        return m_td.TASK_EVAL, {'code': '1 + 1'}, True
    if kind == 1:
        return m_td.TASK_EVAL, {'code': '1 / 0'}, False        # payload raises
    if kind == 2:
        return m_td.TASK_EVAL, {}, False                        # no code
    if kind == 3:
        return 'task.unknown_mode', {'code': '1'}, False        # no dispatcher
    if kind == 4:
        return m_td.TASK_FUNC, {'function': 'verif_payload',
                                'args': [0, 5], 'kwargs': {}}, True
    if kind == 5:
        return m_td.TASK_FUNC, {'function': 'verif_payload',
                                'args': [2, 5], 'kwargs': {}}, False
    return m_td.TASK_FUNC, {'function': 'no_such_function', 'args': [],
                            'kwargs': {}}, False


@obligation(params={'kind': (0, 6), 'second': (0, 6)},
            partition={'quick': ('kind', 7), 'thorough': ('kind', 7)},
            timeout={'quick': 300, 'thorough': 600},
            funcs=['radical/pilot/raptor/worker_default.py:DefaultWorker.' + n
                   for n in ('_request_cb', '_dispatch', '_result_cb')] +
                  ['radical/pilot/raptor/worker.py:Worker.get_dispatcher',
                   'radical/pilot/raptor/master.py:Master._result_cb'],
            bounds='two requests, each one of: eval ok / eval raising / eval '
                   'without code / unknown mode / function ok / function '
                   'raising / unknown function; run through _request_cb -> '
                   '_dispatch -> _worker_proc -> result queue -> _result_cb '
                   '-> Master._result_cb',
            stubs=['multiprocessing.Process -> synchronous stand-in',
                   'asyncio.run -> direct drive', 'os.chdir / rec_makedir -> '
                   'no-op', 'sys.exit in _dispatch -> caught'])
def h_request_chain(kind, second):
    """DONE iff the call succeeded, for every way a request can fail"""
    kind, second = conc(kind, 0, 6), conc(second, 0, 6)
    w = mk_worker(2, 0)
    w._sbox, w._result_queue = '/pilot/worker', ResQueue()
    w._modes = {}
    real(w.register_mode, m_td.TASK_FUNC, w._dispatch_func)
    real(w.register_mode, m_td.TASK_EVAL, w._dispatch_eval)
    m_wd.mp, m_wd.asyncio = SyncMP, FakeAsyncio
    m_wd.os, m_wd.ru = FakeWdOS(), FakeWdRU()
    os.environ = dict(os.environ)
    m  = mk_master()
    ok = {}
    for i, k in enumerate((kind, second)):
        mode, extra, succeeds = _req(k)
        uid = 'r%d' % i
        ok[uid] = succeeds
        d = {'mode': mode, 'timeout': 0, 'environment': {}}
        d.update(extra)
        task = {'uid': uid, 'type': 'task', 'cores': 1, 'gpus': 0,
                'task_sandbox_path': '/pilot/%s' % uid, 'description': d}
        check(real(w._alloc, task), 'request not accepted')
        try:
            w._dispatch(task, {})
        except SystemExit:
            pass                         # the dispatch process ends
        check(len(w._result_queue.items) == 1, 'request %s produced %s results',
              uid, len(w._result_queue.items))
        res = w._result_queue.items.pop()
        w._pool[task['pid']] = object()
        real(w._result_cb, res)
    reach()
    check(w._resources['cores'] == [0, 0], 'cores not given back: %s',
          w._resources)
    real(m._result_cb, list(w._res_put.items))
    for t in w._res_put.items:
        want = rps.DONE if ok[t['uid']] else rps.FAILED
        check(t['target_state'] == want, 'request %s (%s) ends %s: exit code '
              '%r, exception %r', t['uid'], 'succeeded' if ok[t['uid']]
              else 'failed', t['target_state'], t.get('exit_code'),
              t.get('exception'))
        if not ok[t['uid']]:
            check(t.get('exit_code') != 0, 'failed request %s reports exit '
                  'code 0', t['uid'])
            check(t.get('exception'), 'failed request %s reports no '
                  'exception', t['uid'])
    check(len(w._res_put.items) == 2, 'results reported: %s',
          len(w._res_put.items))


# ------------------------------------------------------------------------------
# M2: a request submitted through the master's task service (Master._run_task)
# comes back to the requester, whenever its result arrives
#
class WaitEvent(object):
    """mt.Event of a sequential model: wait() lets the pending world run"""
    def __init__(self, world):
        self.world, self.flag = world, False
    def set(self): self.flag = True
    def is_set(self): return self.flag
    def wait(self, timeout=None):
        if not self.flag:
            self.world.deliver()             # the other thread gets its turn
        check(self.flag, 'run_task waits for ever: the result passed '
              'Master._result_cb %s time(s) but nobody signalled the requester',
              self.world.delivered)
        return True


@obligation(params={'fast': 'bool', 'ec': (0, 2), 'mode': (0, 1),
                    'other': 'bool'},
            timeout={'quick': 200, 'thorough': 400},
            funcs=['radical/pilot/raptor/master.py:Master._run_task',
                   'radical/pilot/raptor/master.py:Master.submit_tasks',
                   'radical/pilot/raptor/master.py:Master._submit_tasks',
                   'radical/pilot/raptor/master.py:Master._result_cb'],
            bounds='one request through Master._run_task (function or '
                   'executable mode); its result reaches _result_cb either '
                   'while submit_tasks is still running (fast worker) or while '
                   'the requester waits; exit code 0 / 1 / absent; optionally '
                   'a second, unrelated result in the same bulk',
            stubs=['mt.Event -> sequential wait model', 'request queue / '
                   'advance -> recorders', 'ru.generate_id -> counter'])
def h_run_task(fast, ec, mode, other):
    """the requester gets its request back exactly once, with the outcome"""
    ec, mode = conc(ec, 0, 2), conc(mode, 0, 1)
    m = mk_master()
    m.request_cb = lambda tasks: tasks
    m.result_cb  = lambda tasks: None
    class World(object):
        pending, delivered = [], 0
        def deliver(self):
            if not self.pending: return
            tasks, self.pending = self.pending, []
            for t in tasks:
                if   ec == 0: t['exit_code'] = 0
                elif ec == 1: t['exit_code'] = 1
                t['return_value'] = 42
            bulk = list(tasks)
            if other:
                bulk.insert(0, {'uid': 'unrelated', 'type': 'task',
                                'exit_code': 0})
            self.delivered += 1
            real(m._result_cb, bulk)
    w = World()
    w.pending = []
    def submitted(tasks):
        w.pending.extend(ru.as_list(tasks))
        if fast: w.deliver()
    m._req_put = type('P', (), {'put': staticmethod(submitted)})()
    m._submit_executable_tasks = lambda tasks: submitted(tasks) if tasks else None
    old_ev, old_id = m_m.mt.Event, m_m.ru.generate_id
    cnt = [0]
    class MT(object):
        Event = staticmethod(lambda: WaitEvent(w))
        def __getattr__(self, k): return getattr(old_mt, k)
    old_mt, old_ru = m_m.mt, m_m.ru
    class RU(object):
        def __getattr__(self, k): return getattr(old_ru, k)
        @staticmethod
        def generate_id(*a, **k):
            cnt[0] += 1
            return 'subtask.%04d' % cnt[0]
    m_m.mt, m_m.ru = MT(), RU()
    try:
        td = {'mode': [m_td.TASK_FUNC, m_td.TASK_EXECUTABLE][mode],
              'function': 'f', 'executable': '/bin/true'}
        ret = real(m._run_task, td)
    finally:
        m_m.mt, m_m.ru = old_mt, old_ru
    reach()
    trace('returned', {k: ret.get(k) for k in ('uid', 'exit_code',
          'target_state', 'return_value')}, 'advanced', m.advanced)
    check(w.delivered == 1, 'result delivered %s times', w.delivered)
    check(ret.get('return_value') == 42, 'the requester got its request back '
          'without the result (return_value %r)', ret.get('return_value'))
    want = rps.DONE if ec == 0 else rps.FAILED
    check(ret.get('target_state') == want, 'request with exit code %s came '
          'back with target state %r', [0, 1, None][ec], ret.get('target_state'))
    check(not m._task_service_data, 'task service still tracks %s',
          list(m._task_service_data))


# ------------------------------------------------------------------------------
# M3: scheduler side routing: function-like requests are relayed to a raptor
# queue exactly once, whatever the order of arrivals and queue registrations
#
import radical.pilot.agent.scheduler.base as m_sbase               # noqa: E402
import harness.sched as HS                                          # noqa: E402


class RQ(object):
    def __init__(self, name, log): self.name, self.log = name, log
    def put(self, tasks):
        for t in ru.as_list(tasks):
            self.log.append((self.name, t['uid']))


REVS = ['task for m0', 'task for *', 'executable seen by raptor',
        'plain executable', 'register m0', 'register m1']


@obligation(params={'e0': (0, 5), 'e1': (0, 5), 'e2': (0, 5), 'e3': (0, 5)},
            shapes={'quick': [{'L': 3}], 'thorough': [{'L': 4}]},
            partition={'quick': ('e0', 6), 'thorough': ('e0', 6)},
            timeout={'quick': 300, 'thorough': 900},
            funcs=['radical/pilot/agent/scheduler/base.py:'
                   'AgentSchedulingComponent._schedule_incoming',
                   'radical/pilot/agent/scheduler/base.py:'
                   'AgentSchedulingComponent.control_cb'],
            bounds='L events (quick 3, thorough 4) out of: function request '
                   'for master m0 / for any master (*), executable request '
                   'already seen by raptor, plain executable task, '
                   'registration of the queue of m0 / m1; at the end m0 '
                   'registers if it has not; 1 node x 4 cores',
            stubs=['ru.zmq.Putter -> recorder'])
def h_sched_routing(e0, e1, e2, e3, L=3):
    """every function-like request is relayed once, executables run here"""
    if L < 4 and e3: return
    evs = [conc(e0, 0, 5), conc(e1, 0, 5), conc(e2, 0, 5)] + \
          ([conc(e3, 0, 5)] if L >= 4 else [])
    nodes = HS.mk_nodes([[rpc.FREE] * 4], [[]], 0, 0)
    s = HS.mk_sched(nodes, 4, 0)
    puts = []
    old = m_sbase.ru
    class RU(object):
        def __getattr__(self, k): return getattr(old, k)
        class zmq(object):
            @staticmethod
            def Putter(queue, addr): return RQ(queue, puts)
            def __getattr__(self, k): return getattr(old.zmq, k)
    m_sbase.ru = RU()
    kinds, reg = {}, []
    try:
        for i, e in enumerate(evs):
            uid = 't%d' % i
            if e <= 3:
                rid  = ['m0', '*', 'm0', None][e]
                mode = ['task.function', 'task.function', 'task.executable',
                        'task.executable'][e]
                t = HS.mk_task(uid, raptor_id=rid, mode=mode)
                if e == 2: t['raptor_seen'] = True
                kinds[uid] = e
                s._queue_sched.put(([t], s._SCHEDULE))
                real(s._schedule_incoming)
            else:
                name = ['m0', 'm1'][e - 4]
                if name in reg: continue
                reg.append(name)
                real(s.control_cb, 'control', {'cmd': 'register_raptor_queue',
                     'arg': {'name': name, 'queue': name, 'addr': 'a'}})
        if 'm0' not in reg:
            reg.append('m0')
            real(s.control_cb, 'control', {'cmd': 'register_raptor_queue',
                 'arg': {'name': 'm0', 'queue': 'm0', 'addr': 'a'}})
    finally:
        m_sbase.ru = old
    reach()
    trace('events', [REVS[e] for e in evs], 'puts', puts, 'advanced',
          s.advanced, 'backlog', {k: [t['uid'] for t in v]
                                  for k, v in s._raptor_tasks.items()})
    for uid, e in kinds.items():
        relayed = [q for q, u in puts if u == uid]
        here    = [a for a in s.advanced if a[0] == uid]
        if e in (0, 1):
            check(len(relayed) == 1, 'function request %s (%s) relayed to a '
                  'raptor queue %s times: %s (backlog %s)', uid, REVS[e],
                  len(relayed), relayed, list(s._raptor_tasks))
            check(not here, 'function request %s also handled by the agent '
                  'scheduler: %s', uid, here)
            if e == 0:
                check(relayed == ['m0'], 'request for m0 relayed to %s', relayed)
        else:
            check(not relayed, 'executable request %s relayed to raptor %s',
                  uid, relayed)
            check(len(here) == 1 and here[0][1] == rps.AGENT_EXECUTING_PENDING,
                  'executable request %s not placed by the agent scheduler '
                  '(%s)', uid, here)
