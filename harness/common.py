"""
Builders shared by harnesses: real RP objects constructed with object.__new__
plus the handful of attributes the methods under test need (the same trick the
repo's unit tests use with mock.patch.object(__init__)).
"""

import threading as mt
import collections

import vfw.shim                                                  # noqa: F401
import radical.utils as ru
import radical.pilot as rp
import radical.pilot.states as rps
import radical.pilot.constants as rpc

from vfw.api import Null

# task states in model order (no None): index 0..16
TSTATES = [rps.NEW,
           rps.TMGR_SCHEDULING_PENDING, rps.TMGR_SCHEDULING,
           rps.TMGR_STAGING_INPUT_PENDING, rps.TMGR_STAGING_INPUT,
           rps.AGENT_STAGING_INPUT_PENDING, rps.AGENT_STAGING_INPUT,
           rps.AGENT_SCHEDULING_PENDING, rps.AGENT_SCHEDULING,
           rps.AGENT_EXECUTING_PENDING, rps.AGENT_EXECUTING,
           rps.AGENT_STAGING_OUTPUT_PENDING, rps.AGENT_STAGING_OUTPUT,
           rps.TMGR_STAGING_OUTPUT_PENDING, rps.TMGR_STAGING_OUTPUT,
           rps.DONE, rps.FAILED, rps.CANCELED]
TVAL    = {s: (i if i < 15 else 15) for i, s in enumerate(TSTATES)}
N_T     = len(TSTATES)     # 18

PSTATES = [rps.NEW, rps.PMGR_LAUNCHING_PENDING, rps.PMGR_LAUNCHING,
           rps.PMGR_ACTIVE_PENDING, rps.PMGR_ACTIVE,
           rps.DONE, rps.FAILED, rps.CANCELED]
PVAL    = {s: (i if i < 5 else 5) for i, s in enumerate(PSTATES)}
N_P     = len(PSTATES)     # 8

FINAL   = rps.FINAL


class FakeEvent(object):
    def __init__(self, v=False): self.v = v
    def is_set(self): return self.v
    def set(self): self.v = True
    def clear(self): self.v = False
    def wait(self, timeout=None): return self.v


class FakeLock(object):
    def __enter__(self): return self
    def __exit__(self, *a): return False
    def acquire(self, *a, **k): return True
    def release(self): pass


class Descr(dict):
    """minimal stand-in for a verified TaskDescription held by a Task"""
    def __getattr__(self, k):
        try: return self[k]
        except KeyError: raise AttributeError(k)


def mk_task(tmgr, uid, state, pilot=None, mode='task.executable'):
    t = object.__new__(rp.Task)
    t._tmgr   = tmgr
    t._descr  = Descr(uid=uid, mode=mode, pilot=pilot, metadata=None,
                      name=uid)
    t._origin = 'client'
    t._session = None
    t._uid    = uid
    t._state  = state
    t._log    = Null()
    t._exit_code = None
    t._stdout = ''
    t._stderr = ''
    t._ofiles = None
    t._return_value = None
    t._exception = None
    t._exception_detail = None
    t._info = None
    t._info_evt = FakeEvent()
    t._pilot = pilot
    t._endpoint_fs = None
    t._resource_sandbox = None
    t._session_sandbox = None
    t._pilot_sandbox = None
    t._task_sandbox = None
    t._client_sandbox = None
    t._callbacks = {m: dict() for m in rpc.TMGR_METRICS}
    t._slots = None
    t._partition = None
    return t


def mk_tmgr(uid='tmgr.0000'):
    tm = object.__new__(rp.TaskManager)
    tm._uid        = uid
    tm._log        = Null()
    tm._prof       = Null()
    tm._rep        = Null()
    tm._tasks      = dict()
    tm._task_info  = dict()
    tm._tasks_lock = FakeLock()
    tm._tcb_lock   = FakeLock()
    tm._pilots     = dict()
    tm._pilots_lock = FakeLock()
    tm._closed     = False
    tm._terminate  = FakeEvent()
    tm._callbacks  = {m: dict() for m in rpc.TMGR_METRICS}
    tm.advanced    = []
    def _advance(things, state=None, publish=True, push=False, **kw):
        tm.advanced.append((things, state, publish, push))
    tm.advance     = _advance
    return tm


def add_task(tm, uid, state, pilot=None, mode='task.executable'):
    t = mk_task(tm, uid, state, pilot, mode=mode)
    tm._tasks[uid]     = t
    tm._task_info[uid] = {'uid': uid, 'state': state}
    return t
