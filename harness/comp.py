"""A bare BaseComponent (real work_cb / _control_cb / is_canceled) with one
fake input queue and a recording advance."""

import radical.utils as ru
import radical.pilot.states as rps
import radical.pilot.utils.component as m_comp

from vfw.api import Null, trace
from harness.common import FakeLock


class InQueue(object):
    channel = 'input'
    def __init__(self): self.bulks = []
    def get_nowait(self, qname=None, timeout=None):
        return self.bulks.pop(0) if self.bulks else []


def mk_component(state, worker, cls=None):
    c = object.__new__(cls or m_comp.BaseComponent)
    c._uid    = 'component.0000'
    c._owner  = 'verif'
    c._log    = Null()
    c._prof   = Null()
    c._cancel_lock = FakeLock()
    c._cancel_list = list()
    c._rpc_reqs    = {}
    c.inq     = InQueue()
    c._inputs  = {'in': {'qname': None, 'queue': c.inq, 'states': [state]}}
    c._workers = {state: worker}
    c.advanced = []
    def _advance(things, state=None, publish=True, push=False, **kw):
        for t in ru.as_list(things):
            if state:
                t['state'] = state
            c.advanced.append((t['uid'], state, push))
            trace('advance', t['uid'], state)
    c.advance = _advance
    return c
