"""
Popen executor world for C07 / C08 / C03 / C05: the real methods of
Popen / AgentExecutingComponent / BaseComponent as coroutines (vfw.coro),
fake process / launcher / files, a recording publish/advance.
"""

import queue

import radical.utils as ru
import radical.pilot.states as rps
import radical.pilot.constants as rpc
import radical.pilot.agent.executing.popen as m_popen
import radical.pilot.agent.executing.base  as m_xbase
import radical.pilot.agent.launch_method.base as m_lmbase
import radical.pilot.agent.launch_method.fork as m_fork
import radical.pilot.utils.component as m_comp

from vfw.api import Null, check, trace
from vfw import coro as C
from harness.common import FakeEvent

NAMES  = ['work', '_handle_task', '_launch_task', '_watch', '_check_running',
          'cancel_task', 'control_cb', '_control_cb', 'is_canceled',
          'handle_timeout', 'get_task']
SHARED = ["task['proc']", "task.get('proc')", "del task['proc']",
          "task['exit_code']", "task['target_state']", 'proc.', 'task_proc.',
          'self._tasks', 'self._cancel_list', 'self._to_tasks', '.publish(',
          '.advance(', 'advance_tasks', '_watch_queue', 'launcher.cancel_task',
          'sp.Popen', 'find_launcher', '_create_', 'ru_open', 'get_launcher',
          'to_watch']

CORO, CORO_INFO = C.make_coros(m_popen.Popen, NAMES, SHARED)

FAULTS = ['none', 'no_launcher', 'exec_script', 'launch_script', 'ru_open',
          'popen']


class Env(object):
    """process environment: when the fake process exits, what was killed"""
    def __init__(self, exit_before_poll, exit_code):
        self.exit_before_poll = exit_before_poll   # 0: never on its own
        self.exit_code = exit_code
        self.polls  = 0
        self.flags  = []
        self.procs  = {}
        self.sched  = None      # Coop scheduler (current thread name)
        self.poll_log = []      # (thread, pid, exited_before_this_poll)


class FakeProc(object):
    def __init__(self, env, pid):
        self.env, self.pid = env, pid
        self.exited = False
        self.code   = None
        self.killed = False
        self.waited = 0
    def poll(self):
        self.env.polls += 1
        if not self.exited and self.env.exit_before_poll \
           and self.env.polls >= self.env.exit_before_poll:
            self.exited, self.code = True, self.env.exit_code
        self.env.poll_log.append((getattr(self.env.sched, 'current', None),
                                  self.pid, self.exited and not self.killed))
        if not self.exited and self.killed:
            self.exited, self.code = True, -15
        return self.code if self.exited else None
    def wait(self):
        self.waited += 1
        if not self.exited:
            if self.killed:
                self.exited, self.code = True, -15
            else:
                # would block until the process ends on its own
                self.exited, self.code = True, self.env.exit_code
                self.env.flags.append('wait() on a running process')
        return self.code


class FakeOS(object):
    """stands in for `os` in launch_method/base.py"""
    def __init__(self, env): self.env = env
    def killpg(self, pid, sig):
        p = self.env.procs.get(pid)
        if p is None or p.exited:
            raise OSError('no such process')
        p.killed = True
    def __getattr__(self, k):
        import os
        return getattr(os, k)


class FakeTimeMod(object):
    def __init__(self): self.now = 1000.0
    def time(self): return self.now
    def sleep(self, d): pass


class FakeSP(object):
    STDOUT = -2
    def __init__(self, env, fault):
        self.env, self.fault, self.n = env, fault, 0
    def Popen(self, *a, **k):
        if self.fault == 'popen':
            raise OSError('exec format error')
        self.n += 1
        p = FakeProc(self.env, 4000 + self.n)
        self.env.procs[p.pid] = p
        return p


class FakeRU(object):
    def __init__(self, fault): self.fault = fault
    def ru_open(self, *a, **k):
        if self.fault == 'ru_open':
            raise IOError('cannot open launch.out')
        return object()
    def get_exception_trace(self):
        return ['trace']
    def __getattr__(self, k):
        return getattr(ru, k)


class FakeRM(object):
    def __init__(self, fault, launcher, fault_uid=None):
        self.fault, self.launcher, self.fault_uid = fault, launcher, fault_uid
    def find_launcher(self, task):
        if self.fault == 'no_launcher' and \
           self.fault_uid in (None, task['uid']):
            return None, None
        return self.launcher, 'FORK'
    def get_launcher(self, name):
        return self.launcher


class WatchQueue(object):
    def __init__(self): self.items, self.seen = [], []
    def put(self, x):
        self.items.append(x)
        self.seen.append(x)
    def get_nowait(self):
        if not self.items: raise queue.Empty()
        return self.items.pop(0)


class CountdownEvent(object):
    """_term stand-in: is_set() becomes True after n calls"""
    def __init__(self, n): self.n = n
    def is_set(self):
        self.n -= 1
        return self.n < 0


class RCfg(object):
    new_session_per_task = False


class Sess(object):
    rcfg = RCfg()


def mk_popen(env, fault='none', watch_iters=3, fault_uid=None):
    # fault_uid: the fault hits only that task (no_launcher / script faults)
    ex = object.__new__(m_popen.Popen)
    ex._uid   = 'agent_executing.0000'
    ex._log   = Null()
    ex._prof  = Null()
    ex._tasks = dict()
    ex._check_lock  = C.CoopLock('_check_lock')
    ex._cancel_lock = C.CoopLock('_cancel_lock')
    ex._to_lock     = C.CoopLock('_to_lock')
    ex._cancel_list = list()
    ex._to_tasks    = list()
    ex._watch_queue = WatchQueue()
    ex._term        = CountdownEvent(watch_iters)
    ex._session     = Sess()
    ex._rpc_reqs    = {}
    launcher = object.__new__(m_fork.Fork)
    launcher._log = Null()
    launcher.name = 'FORK'
    ex._rm = FakeRM(fault, launcher, fault_uid)
    ex.events = []      # ('publish', channel, [uids]) / ('advance', uid, state, push, exit_code, target_state)

    def _publish(channel, msg, **kw):
        if channel == rpc.AGENT_UNSCHEDULE_PUBSUB:
            uids = [t['uid'] for t in ru.as_list(msg)]
            ex.events.append(('unschedule', uids))
            trace('unschedule', uids)
    def _advance(things, state=None, publish=True, push=False, **kw):
        for t in ru.as_list(things):
            if state:
                t['state'] = state
            ex.events.append(('advance', t['uid'], state, push,
                              t.get('exit_code'), t.get('target_state'),
                              'proc' in t))
            trace('advance', t['uid'], state, 'push' if push else '',
                  t.get('exit_code'), t.get('target_state'))
    ex.publish = _publish
    ex.advance = _advance

    def _script(name):
        def _f(*a, **k):
            uids = [x['uid'] for x in a if isinstance(x, dict) and 'uid' in x]
            if fault == name and (fault_uid is None or fault_uid in uids):
                raise RuntimeError('cannot create %s' % name)
            return '/sbox/x.sh', '/sbox/x.sh'
        return _f
    ex._create_exec_script   = _script('exec_script')
    ex._create_launch_script = _script('launch_script')

    # module level fakes
    m_popen.sp   = FakeSP(env, fault)
    m_popen.ru   = FakeRU(fault)
    m_popen.time = FakeTimeMod()
    m_xbase.time = FakeTimeMod()
    m_lmbase.os   = FakeOS(env)
    m_lmbase.time = FakeTimeMod()
    return ex




def mk_xtask(uid, timeout=0.0):
    return {'uid': uid, 'type': 'task', 'origin': 'client',
            'state': rps.AGENT_EXECUTING_PENDING,
            'task_sandbox_path': '/sbox/%s' % uid,
            'description': {'uid': uid, 'executable': '/bin/true',
                            'timeout': timeout, 'startup_timeout': 0.0,
                            'raptor_id': None},
            'slots': [{'node_index': 0}]}


def cancel_msg(uids):
    return {'cmd': 'cancel_tasks', 'arg': {'uids': list(uids)}}


# ------------------------------------------------------------------------------
# trace oracle
#
def summarize(ex, uid):
    out = {'executing': 0, 'handover_stageout': [], 'final_adv': [],
           'unschedule': 0}
    for ev in ex.events:
        if ev[0] == 'unschedule':
            out['unschedule'] += ev[1].count(uid)
        elif ev[1] == uid:
            _, _, state, push, ec, tgt, has_proc = ev
            if state == rps.AGENT_EXECUTING:
                out['executing'] += 1
            elif state == rps.AGENT_STAGING_OUTPUT_PENDING:
                out['handover_stageout'].append((ec, tgt, push, has_proc))
            elif state in (rps.FAILED, rps.CANCELED, rps.DONE):
                out['final_adv'].append(state)
    return out


def check_exactly_once(ex, uid, accepted=True, launched=None):
    s = summarize(ex, uid)
    if not accepted:
        check(s['executing'] == 0 and not s['handover_stageout']
              and s['unschedule'] == 0, '%s not accepted but %s', uid, s)
        return s
    check(s['executing'] == 1, '%s: AGENT_EXECUTING announced %s times',
          uid, s['executing'])
    n_hand = len(s['handover_stageout']) + len(s['final_adv'])
    check(n_hand == 1, '%s handed on %s times: to output staging %s, final '
          'announcements %s', uid, n_hand, s['handover_stageout'],
          s['final_adv'])
    check(s['unschedule'] == 1, '%s: %s unschedule requests', uid,
          s['unschedule'])
    for ec, tgt, push, has_proc in s['handover_stageout']:
        check(push, '%s: hand-over to output staging not pushed', uid)
        check(tgt in (rps.DONE, rps.FAILED, rps.CANCELED),
              '%s handed to output staging without outcome (target_state %s)',
              uid, tgt)
        check(not has_proc, '%s handed on with the process handle attached',
              uid)
    return s
