"""
Builders and oracles for the agent scheduler harnesses (C01..C04, C08).

The Continuous scheduler is built with object.__new__ plus the attributes
its methods read; the methods themselves are the real ones from /repo/src.
"""

import queue
import collections

import radical.utils as ru
import radical.pilot.constants as rpc
import radical.pilot.states as rps
import radical.pilot.agent.scheduler.base       as m_base
import radical.pilot.agent.scheduler.continuous as m_cont

from vfw.api import Null, check, trace
from harness.common import FakeEvent, FakeLock

FREE, BUSY, DOWN = rpc.FREE, rpc.BUSY, rpc.DOWN
CSTATE = [FREE, BUSY, DOWN]            # core / gpu cell states by index


class _NoPprint(object):
    @staticmethod
    def pformat(*a, **k):
        return ''


# logging arguments are formatted eagerly in continuous.py: stub the formatter
m_cont.pprint = _NoPprint


class RMInfo(object):
    pass


class FakeRM(object):
    def __init__(self, cpn, gpn, lfs, mem):
        self.info = RMInfo()
        self.info.cores_per_node = cpn
        self.info.gpus_per_node  = gpn
        self.info.lfs_per_node   = lfs
        self.info.mem_per_node   = mem


class FakeQueue(object):
    """stands in for mp.Queue: get(timeout) raises queue.Empty when drained"""
    def __init__(self):
        self.items   = collections.deque()
        self.on_get  = None
    def put(self, item):
        self.items.append(item)
    def get(self, timeout=None):
        if self.on_get:
            self.on_get()
        if not self.items:
            raise queue.Empty()
        return self.items.popleft()


def mk_nodes(cells, gcells, lfs, mem):
    """cells: per node list of core states; gcells: per node list of gpu states"""
    nodes = []
    for i, (cs, gs) in enumerate(zip(cells, gcells)):
        nodes.append({'index': i, 'name': 'node%d' % i,
                      'cores': list(cs), 'gpus': list(gs),
                      'lfs': lfs[i] if isinstance(lfs, list) else lfs,
                      'mem': mem[i] if isinstance(mem, list) else mem})
    return nodes


def mk_sched(nodes, cpn, gpn, lfs_per_node=0, mem_per_node=0, scattered=True,
             offset=0, active=0, cls=None):
    cls = cls or m_cont.Continuous
    s = object.__new__(cls)
    s._uid           = 'agent_scheduling.0000'
    s._log           = Null()
    s._prof          = Null()
    s._rm            = FakeRM(cpn, gpn, lfs_per_node, mem_per_node)
    s.nodes          = nodes
    s._colo_history  = dict()
    s._tagged_nodes  = set()
    s._scattered     = scattered
    s._node_offset   = offset
    s._partition_ids = []
    s._active_cnt    = active
    s._waitpool      = collections.defaultdict(dict)
    s._ts_map        = collections.defaultdict(set)
    s._ts_valid      = False
    s._named_envs    = list()
    s._queue_sched   = FakeQueue()
    s._queue_unsched = FakeQueue()
    s._term          = FakeEvent()
    s._cancel_lock   = FakeLock()
    s._cancel_list   = list()
    s._raptor_queues = dict()
    s._raptor_tasks  = dict()
    s._raptor_lock   = FakeLock()
    s._scheduler_process = True
    s.advanced       = []          # (uid, state, push) per advance call
    def _advance(things, state=None, publish=True, push=False, **kw):
        for t in ru.as_list(things):
            if state:
                t['state'] = state
            s.advanced.append((t['uid'], state or t.get('state'), push))
            trace('advance', t['uid'], state)
    s.advance = _advance
    return s


def mk_task(uid, ranks=1, cpr=1, gpr=0.0, lfs=0, mem=0, rpn=None, tags=None,
            priority=0, slots=None, named_env=None, raptor_id=None,
            mode='task.executable'):
    td = {'uid': uid, 'ranks': ranks, 'cores_per_rank': cpr,
          'gpus_per_rank': gpr, 'lfs_per_rank': lfs, 'mem_per_rank': mem,
          'ranks_per_node': rpn, 'tags': tags or {}, 'priority': priority,
          'partition': None, 'slots': slots, 'named_env': named_env,
          'raptor_id': raptor_id, 'mode': mode}
    return {'uid': uid, 'type': 'task', 'state': rps.AGENT_SCHEDULING,
            'description': td}


def snapshot(nodes):
    return [{'cores': list(n['cores']), 'gpus': list(n['gpus']),
             'lfs': n['lfs'], 'mem': n['mem']} for n in nodes]


# ------------------------------------------------------------------------------
# oracles
#
def check_no_oversubscription(pre, slots, nodes_by_index=None):
    """C01: `slots` granted on pre-state `pre` (snapshot) do not overlap what
    is busy/down there, nor each other; GPU shares sum to <= 1; lfs/mem fit."""
    cores_taken = set()
    gpu_share   = {}
    lfs_taken   = {}
    mem_taken   = {}
    for s in slots:
        ni = s['node_index']
        check(0 <= ni < len(pre), 'slot on non-existing node %s', ni)
        pn = pre[ni]
        for c in s['cores']:
            ci = c['index']
            check(0 <= ci < len(pn['cores']), 'core index %s out of range', ci)
            check(pn['cores'][ci] == FREE, 'core %s:%s handed out but was %s',
                  ni, ci, pn['cores'][ci])
            check((ni, ci) not in cores_taken, 'core %s:%s handed out twice',
                  ni, ci)
            cores_taken.add((ni, ci))
        for g in s['gpus']:
            gi = g['index']
            check(0 <= gi < len(pn['gpus']), 'gpu index %s out of range', gi)
            occ = pn['gpus'][gi]
            check(occ is not DOWN, 'blocked gpu %s:%s handed out', ni, gi)
            gpu_share[(ni, gi)] = gpu_share.get((ni, gi), occ) \
                                + g['occupation']
            check(gpu_share[(ni, gi)] <= BUSY, 'gpu %s:%s oversubscribed: '
                  'shares sum to %s', ni, gi, gpu_share[(ni, gi)])
        lfs_taken[ni] = lfs_taken.get(ni, 0) + (s['lfs'] or 0)
        mem_taken[ni] = mem_taken.get(ni, 0) + (s['mem'] or 0)
    for ni, v in lfs_taken.items():
        check(v <= pre[ni]['lfs'], 'node %s: lfs granted %s > available %s',
              ni, v, pre[ni]['lfs'])
    for ni, v in mem_taken.items():
        check(v <= pre[ni]['mem'], 'node %s: mem granted %s > available %s',
              ni, v, pre[ni]['mem'])


def check_shape(task, slots, pre, cpn, gpn, lfs_per_node, mem_per_node,
                colo_before=None):
    """C02: granted placement has exactly the requested shape"""
    td   = task['description']
    cpr  = td['cores_per_rank'] or 1
    gpr  = td['gpus_per_rank']
    check(len(slots) == td['ranks'], 'granted %s ranks, requested %s',
          len(slots), td['ranks'])
    per_node = {}
    for s in slots:
        ni = s['node_index']
        check(0 <= ni < len(pre), 'slot on non-existing node %s', ni)
        check(s['node_name'] == 'node%d' % ni, 'node name/index mismatch')
        idx = [c['index'] for c in s['cores']]
        check(len(idx) == cpr, 'rank has %s cores, requested %s', len(idx), cpr)
        check(len(set(idx)) == len(idx), 'rank holds a core twice: %s', idx)
        gi = [g['index'] for g in s['gpus']]
        if gpr >= 1:
            check(len(gi) == int(gpr) and len(set(gi)) == len(gi),
                  'rank has gpus %s, requested %s', gi, gpr)
            check(all(g['occupation'] == BUSY for g in s['gpus']),
                  'whole gpu with partial occupation')
        elif gpr > 0:
            check(len(gi) == 1 and s['gpus'][0]['occupation'] == gpr,
                  'rank has gpu share %s, requested %s', s['gpus'], gpr)
        else:
            check(not gi, 'rank has gpus %s, requested none', gi)
        check(s['lfs'] == td['lfs_per_rank'], 'lfs %s != requested %s',
              s['lfs'], td['lfs_per_rank'])
        check(s['mem'] == td['mem_per_rank'], 'mem %s != requested %s',
              s['mem'], td['mem_per_rank'])
        per_node[ni] = per_node.get(ni, 0) + 1
    rpn = td['ranks_per_node']
    if rpn:
        for ni, n in per_node.items():
            check(n <= rpn, 'node %s holds %s ranks, ranks_per_node=%s',
                  ni, n, rpn)
    tag = td['tags'].get('colocate')
    if tag is not None and colo_before is not None \
                       and str(tag) in colo_before:
        for ni in per_node:
            check(ni in colo_before[str(tag)], 'colocate tag %s: node %s not '
                  'in %s', tag, ni, colo_before[str(tag)])
    # per-rank needs beyond a single node must have been refused
    check(cpr <= cpn, 'granted although cores_per_rank %s > cores_per_node %s',
          cpr, cpn)
    check(gpr <= gpn, 'granted although gpus_per_rank %s > gpus_per_node %s',
          gpr, gpn)
    check(td['lfs_per_rank'] <= lfs_per_node, 'granted although lfs_per_rank '
          '%s > lfs_per_node %s', td['lfs_per_rank'], lfs_per_node)
    check(td['mem_per_rank'] <= mem_per_node, 'granted although mem_per_rank '
          '%s > mem_per_node %s', td['mem_per_rank'], mem_per_node)


def check_marked(pre, post, slots):
    """post == pre + slots, cell by cell"""
    exp = [{'cores': list(n['cores']), 'gpus': list(n['gpus']),
            'lfs': n['lfs'], 'mem': n['mem']} for n in pre]
    for s in slots:
        n = exp[s['node_index']]
        for c in s['cores']: n['cores'][c['index']] = BUSY
        for g in s['gpus'] : n['gpus'][g['index']]  = BUSY
        n['lfs'] -= s['lfs'] or 0
        n['mem'] -= s['mem'] or 0
    for i, (e, p) in enumerate(zip(exp, post)):
        check(e['cores'] == p['cores'], 'node %s cores: expected %s, map says '
              '%s', i, e['cores'], p['cores'])
        check(e['gpus'] == p['gpus'], 'node %s gpus: expected %s, map says %s',
              i, e['gpus'], p['gpus'])
        check(e['lfs'] == p['lfs'] and e['mem'] == p['mem'],
              'node %s lfs/mem: expected %s/%s, map says %s/%s', i,
              e['lfs'], e['mem'], p['lfs'], p['mem'])
        check(p['lfs'] >= 0 and p['mem'] >= 0, 'node %s lfs/mem negative', i)
