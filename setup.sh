#!/bin/bash
# Build the overlay venv offline (idempotent).  /venv holds the repo's own
# interpreter and dependencies (editable install of /repo/src); the overlay adds
# only crosshair-tool + z3-solver from the offline wheelhouse.
set -e
cd "$(dirname "$0")"
V=.venv
if [ ! -x $V/bin/python ] || ! $V/bin/python -c 'import crosshair, z3' 2>/dev/null; then
    rm -rf $V
    /venv/bin/python -m venv $V
    echo "import site; site.addsitedir('/venv/lib/python3.12/site-packages')" \
        > $V/lib/python3.12/site-packages/_overlay.pth
    PIP_NO_INDEX=1 $V/bin/pip install -q --no-index \
        --find-links /opt/veriftools/wheels crosshair-tool z3-solver >/dev/null
fi
$V/bin/python -c 'import crosshair, z3; print("vfw setup ok: crosshair", crosshair.__version__, "z3", z3.get_version_string())'
