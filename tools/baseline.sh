#!/bin/bash
# Runs the repository's pinned baseline (guard OFF) and compares the set of
# passing tests with /root/.vp/BASELINE.json (stable_pass).  exit 0 iff all
# stable tests still pass.  BASELINE_REPO=<dir> runs it in another checkout.
unset RADICAL_PILOT_VERIF
R=${BASELINE_REPO:-/repo}
OUT=$(mktemp /tmp/baseline.XXXXXX.xml)
cd $R && PYTHONPATH=$R/src /venv/bin/python -m pytest -ra -q -p no:cacheprovider --timeout=900 \
    --continue-on-collection-errors --junitxml=$OUT >/dev/null 2>&1
/venv/bin/python - "$OUT" <<'PY'
import sys, json, xml.etree.ElementTree as ET
base = json.load(open('/root/.vp/BASELINE.json'))
want = set(base['stable_pass'])
got  = set()
for tc in ET.parse(sys.argv[1]).getroot().iter('testcase'):
    if not any(c.tag in ('failure', 'error', 'skipped') for c in tc):
        got.add('%s::%s' % (tc.get('classname'), tc.get('name')))
miss = sorted(want - got)
print('baseline: %d/%d stable tests pass' % (len(want & got), len(want)))
for m in miss: print('  MISSING', m)
sys.exit(1 if miss else 0)
PY
rc=$?
rm -f $OUT
exit $rc
