#!/bin/bash
# usage: benigntest.sh <PROP> <dir-with-patch.diff> [check-props...]
# A behaviour-preserving change: the quick check must exit 0 on the patched tree.
P=$1; D=$2; shift 2; CHECKS=${@:-$P}
W=/tmp/wt/benigntest.$$
git -C /repo worktree add --detach $W HEAD -q || exit 9
trap "git -C /repo worktree remove --force $W" EXIT
git -C $W apply $D/patch.diff || { echo "patch does not apply"; exit 8; }
[ -n "$WITH_BASELINE" ] && echo "== baseline with patch: $(BASELINE_REPO=$W /verif/tools/baseline.sh | head -1)"
for c in $CHECKS; do
  ( cd /verif && VERIF_REPO=$W PYTHONPATH=$W/src ./vcheck $c --tier quick --no-evidence > /tmp/benign_check_$c.$$.log 2>&1; echo "== check $c rc=$?"; grep -E "counterexample|VIOLATION|HARNESS-ERROR|INCONCLUSIVE" /tmp/benign_check_$c.$$.log | head -5; tail -1 /tmp/benign_check_$c.$$.log | cut -c1-300; rm -f /tmp/benign_check_$c.$$.log )
done
