"""Per-property claims; tools/mkmanifest.py turns this into MANIFEST.json."""

CLAIMS = {
 'C06': dict(
    text='Bounded symbolic execution of the real TaskManager._update_tasks / '
         '_task_cb / Task._update / states._task_state_progress as an inductive '
         'step: arbitrary current state of each task x arbitrary notified state '
         '(all 18x18 combinations, duplicates, a second task in the same bulk in '
         'both orders); the solver-guided path search exhausts the tree '
         '("confirmed over all paths").  One step from an arbitrary state covers '
         'notification histories of any length.',
    note='Trusted: CrossHair 0.0.110/z3 path exhaustion; locks replaced by no-op '
         'context managers (single thread); _log/_prof no-ops; bulk callbacks '
         '(_USE_BULK_CB, off by default) not covered; at most 2 tasks per bulk.',
    design='4/C06'),
 'C13': dict(
    text='Bounded symbolic execution of the real TaskManager._pilot_state_cb with '
         'Task._update / Task.as_dict: tasks with symbolic pilot binding (none, '
         'p0, p1) and symbolic state (all 18 states), pilots ending in symbolic '
         'order and final state; the solver-guided search exhausts the path tree '
         'and the post-state of every task is compared with "FAILED naming the '
         'pilot iff bound to an ended pilot and not final, unchanged otherwise".',
    note='Trusted: CrossHair/z3 path exhaustion; TaskManager.advance replaced by a '
         'recorder, Pilot facade by an object with uid/state; bound: 1 arbitrary task '
         '+ 3 fixed bystanders (quick), 2 arbitrary tasks (thorough), 2 pilots.',
    design='4/C13'),
 'C15': dict(
    text='Bounded symbolic execution of the real Task.wait, Pilot.wait, '
         'TaskManager.wait_tasks and PilotManager.wait_pilots against a fake clock: '
         'requested-state argument (12 forms), state trajectory of the awaited '
         'entities and the time-out (symbolic number of poll intervals) are solver '
         'variables; a path that runs out of poll fuel after the awaited condition '
         'became true is reported as "did not return"; returned values are compared '
         'with the actual states.',
    note='Trusted: CrossHair/z3 path exhaustion; time module of the module under '
         'test replaced by a virtual clock (state changes only while the waiter '
         'sleeps); 7 representative states per entity, trajectories of 2 (quick) / 3 '
         '(thorough) states, at most 2 entities, time-out 1..4 polls; _terminate '
         'never set.',
    design='4/C15'),
}

NOT_YET = 'check not built yet in this session (see DESIGN.md section 4 for the plan)'
