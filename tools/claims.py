"""Per-property claims; tools/mkmanifest.py turns this into MANIFEST.json."""

CLAIMS = {
 'C06': dict(
    text='Bounded symbolic execution of the real TaskManager._update_tasks / '
         '_task_cb / Task._update / states._task_state_progress as an inductive '
         'step: arbitrary current state of each task x arbitrary notified state '
         '(all 18x18 combinations, duplicates, a second task in the same bulk in '
         'both orders); the solver-guided path search exhausts the tree '
         '("confirmed over all paths").  One step from an arbitrary state covers '
         'notification histories of any length.',
    note='Trusted: CrossHair 0.0.110/z3 path exhaustion; locks replaced by no-op '
         'context managers (single thread); _log/_prof no-ops; bulk callbacks '
         '(_USE_BULK_CB, off by default) not covered; at most 2 tasks per bulk.',
    design='4/C06'),
}

NOT_YET = 'check not built yet in this session (see DESIGN.md section 4 for the plan)'
