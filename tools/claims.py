"""Per-property claims; tools/mkmanifest.py turns this into MANIFEST.json."""

CLAIMS = {
 'C06': dict(
    text='Bounded symbolic execution of the real TaskManager._update_tasks / '
         '_task_cb / Task._update / states._task_state_progress as an inductive '
         'step: arbitrary current state of each task x arbitrary notified state '
         '(all 18x18 combinations, duplicates, a second task in the same bulk in '
         'both orders); the solver-guided path search exhausts the tree '
         '("confirmed over all paths").  One step from an arbitrary state covers '
         'notification histories of any length.  A task that is final also stays what it '
         'is when its pilot ends afterwards (TaskManager._pilot_state_cb).',
    note='Trusted: CrossHair 0.0.110/z3 path exhaustion; locks replaced by no-op '
         'context managers (single thread); _log/_prof no-ops; bulk callbacks '
         '(_USE_BULK_CB, off by default) not covered; at most 2 tasks per bulk.',
    design='4/C06'),
 'C13': dict(
    text='Bounded symbolic execution of the real TaskManager._pilot_state_cb with '
         'Task._update / Task.as_dict: tasks with symbolic pilot binding (none, '
         'p0, p1) and symbolic state (all 18 states), pilots ending in symbolic '
         'order and final state; the solver-guided search exhausts the path tree '
         'and the post-state of every task is compared with "FAILED naming the '
         'pilot iff bound to an ended pilot and not final, unchanged otherwise"; the '
         'registration path add_pilots -> register_callback -> Pilot._update is driven '
         'for 1..2 pilots with a symbolic current pilot state and removal; the task may be '
         'a service task; pilots may end because their PilotManager is closed.',
    note='Trusted: CrossHair/z3 path exhaustion; TaskManager.advance replaced by a '
         'recorder, Pilot facade by an object with uid/state; bound: 1 arbitrary task '
         '+ 3 fixed bystanders (quick), 2 arbitrary tasks (thorough), 2 pilots.',
    design='4/C13'),
 'C15': dict(
    text='Bounded symbolic execution of the real Task.wait, Pilot.wait, '
         'TaskManager.wait_tasks and PilotManager.wait_pilots against a fake clock: '
         'requested-state argument (13 forms), state trajectory of the awaited '
         'entities and the time-out (symbolic number of poll intervals) are solver '
         'variables; a path that runs out of poll fuel after the awaited condition '
         'became true is reported as "did not return"; returned values are compared '
         'with the actual states.',
    note='Trusted: CrossHair/z3 path exhaustion; time module of the module under '
         'test replaced by a virtual clock (state changes only while the waiter '
         'sleeps); 7 representative states per entity, trajectories of 2 (quick) / 3 '
         '(thorough) states, at most 2 entities, time-out 1..4 polls; _terminate '
         'never set.',
    design='4/C15'),
 'C14': dict(
    text='Bounded symbolic execution of (P1) the real PilotManager._state_sub_cb / '
         '_update_pilot / _call_pilot_callbacks / Pilot._update and the tmgr '
         "scheduler's _update_pilot_states as an inductive step (arbitrary current "
         'state x two successive notifications with arbitrary states for a known or '
         'unknown pilot), and (P2) the real Agent_0 termination logic '
         '(_check_lifetime, stop, _control_cb, control_cb, _ctrl_cancel_pilots, '
         'finalize) with start time, run time and event times as symbolic integers '
         'and a symbolic pair of termination events; the state written to '
         'killme.signal and published is compared with the cause; (P3) two threads '
         'delivering notifications for the same pilot through _update_pilot turned '
         'into coroutines (cooperative _pilots_lock, symbolic pre-emption points); the '
         'final state equals the notified one whatever states were skipped; (P4) '
         'PMGRLaunchingComponent.work reports FAILED exactly for the pilots of a '
         'bucket whose submission failed.',
    note='Trusted: CrossHair/z3 path exhaustion; fake clock, in-memory killme.signal, '
         'recorders for session/rm/publish/advance; bootstrap_0.sh (forwards the '
         'signal file) not covered; one pilot per notification message; at most 2 '
         'notifications / 2 termination events; 2 threads with <= 1 (thorough 2) '
         'pre-emptions.',
    design='4/C14'),
 'C19': dict(
    text='Bounded symbolic execution of the real TaskDescription / PilotDescription '
         'verify(), _verify(), as_dict() (through the ru.TypedDict machinery) and of '
         'convert_slots_to_new / convert_slots_to_old / Slot.__init__: task mode as a '
         'symbolic index over all 13 mode values x presence of the mode-specific '
         'attributes, deprecated attributes in every present/absent combination, '
         'symbolic integer values, pilot sizes as symbolic integers, slot core/GPU '
         'index sets as bit masks in four entry forms; asserts required-attribute '
         'enforcement, alias mapping, idempotence of verify() and dict round trip, '
         'index preservation of the slot conversions.',
    note='Trusted: CrossHair/z3 path exhaustion. PythonTask encode/decode is driven '
         'with a symbolic argument shape (positional / keyword / both / none) through '
         'the real dill + base64 transport (concrete there); every TaskDescription '
         'attribute keeps its value through verify() (h_td_values: list / dict '
         'valued ones; h_td_scalars: 20 explicitly set scalar values incl. both '
         'truth values of use_mpi x rank counts x modes); closures of one factory '
         'encoded one after the other decode to their own function '
         '(h_pytask_sequence).  Outside the '
         'claim: gpu_processes only with a concrete value (float '
         'of a symbolic int is inconclusive); new->old->new composition (the old form '
         'produced by convert_slots_to_old is not an input form of '
         'convert_slots_to_new).',
    design='4/C19'),
 'C01': dict(
    text='Inductive step decided by bounded symbolic execution of the real agent '
         'scheduler (Continuous._find_resources, schedule_task, _iterate_nodes, '
         'AgentSchedulingComponent._try_allocation, _change_slot_states, '
         '_schedule_incoming with application-supplied slots) and of the client-side '
         'Node.find_slot / allocate_slot / deallocate_slot: from an arbitrary '
         'occupancy map (every core/GPU cell FREE/BUSY/DOWN, symbolic lfs/mem left) '
         'one grant for a symbolic request is computed and compared cell by cell '
         'with the pre-state: only free cells, no cell twice, GPU shares per GPU <= '
         '1, lfs/mem within what is left, DOWN never handed out, map afterwards == '
         'map before + grant.  One step from an arbitrary state covers histories of '
         'any length.  A failed client-side find_slots leaves the node list untouched.  '
         'The JSRUN flavour (ContinuousJsrun.schedule_task: ranks grouped into resource '
         'sets sharing whole GPUs) is checked for free cells only and <= 1 share per '
         'GPU.',
    note='Trusted: CrossHair/z3 path exhaustion; _log/_prof/pprint stubs, mp.Queue -> '
         'in-memory queue, advance -> recorder.  Bounds: 1 node x 2..4 cores x 1..2 '
         'GPUs for _find_resources; 2 nodes x 2 cores x 1 GPU for schedule_task; ranks '
         '<= 3, cores/rank <= 2, GPU amounts {0,.25,.5,1,2}; lfs/mem from concrete '
         'tables on the agent side (float floor arithmetic), symbolic on the client '
         'side.  ContinuousJsrun, Hombre and NUMA nodes are outside the bound.  One '
         'known finding (application-supplied slots are not validated) is excluded by '
         'region and printed as KNOWN-FINDING.',
    design='4/C01'),
 'C02': dict(
    text='Bounded symbolic execution of the real Continuous.schedule_task / '
         '_find_resources via _try_allocation from an arbitrary occupancy map for a '
         'symbolic request (ranks, cores/rank incl. more than a node has, whole and '
         'fractional GPU amounts incl. more than a node has, lfs/mem per rank, '
         'ranks_per_node, colocate tag with symbolic tag history, exclusive flag, '
         'scattered mode, iteration offset): every granted placement is compared '
         'with the request; client side NodeList.find_slots/_assert_rr returns '
         'exactly n slots of the requested shape or nothing; Node.find_slot hands out '
         'cores and GPUs at the requested, independent shares.',
    note='Trusted: CrossHair/z3 path exhaustion. Bounds: 2 nodes x 2 cores x 1 GPU '
         '(schedule_task), 1 node x 2 cores x 3 GPUs (_find_resources), ranks <= 3; '
         'partition ids (PRTE) not exercised; ContinuousJsrun/Hombre outside.',
    design='4/C02'),
 'C03': dict(
    text='Bounded symbolic execution of the real grant/release code: (1) grant via '
         '_try_allocation + release via _unschedule_completed/unschedule_task from an '
         'arbitrary occupancy map restores cores, GPUs, lfs, mem and _active_cnt; (2) '
         'bounded histories on an idle pilot: 2 scheduler-placed tasks + 1 task with '
         'application-supplied slots, released in all 6 orders through the real '
         '_schedule_incoming/_schedule_waitpool/_unschedule_completed: nothing held is '
         'granted again, capacity at quiescence == initial, _active_cnt == 0; (3) '
         'executor side (shared with C07): exactly one unschedule publication per task '
         'on every explored interleaving of the Popen and of the NOOP executor; (4) '
         'client side find_slots + release_slots.',
    note='Trusted: CrossHair/z3 path exhaustion; in-memory queues. Bounds: 2 nodes x 2 '
         'cores x 1 GPU, <= 3 tasks, lfs/mem from concrete tables.',
    design='4/C03'),
 'C04': dict(
    text='Bounded model checking of the real scheduler loop by symbolic execution: the '
         'loop body of AgentSchedulingComponent._schedule_tasks is sliced from the '
         'current source (AST) into a step function and driven with a symbolic event '
         'sequence (arrivals of tasks with symbolic shape and priority - incl. invalid '
         'and never-fitting ones -, completions, cancel requests, several arrivals in '
         'one intake) through the real _schedule_waitpool/_schedule_incoming/'
         '_unschedule_completed/_try_allocation/lazy_bisect/_control_cb/is_canceled; '
         'after every iteration each task is in exactly one place and reported at most '
         'once, at rest the liveness clauses are checked against an independent '
         'fits-the-free-map oracle (cores, GPUs and memory); a second harness checks the '
         'priority clause.',
    note='Trusted: CrossHair/z3 path exhaustion; slice validated to contain the three '
         'sub-steps; control thread interleaves only at queue boundaries. Bounds: 1 node '
         'x 4 cores (thorough also 2 x 2), <= 3 events (thorough 4), scattered mode; '
         'named environments and raptor forwarding not exercised here.',
    design='4/C04'),
 'C07': dict(
    text='Bounded model checking of the real Popen executor by symbolic execution: the '
         'methods run by the component thread (work/_handle_task/_launch_task), the '
         'process watcher (_watch/_check_running), the control thread '
         '(_control_cb/control_cb/cancel_task/is_canceled) and a second canceller are '
         'turned into coroutines by an AST pass over the current source (yield before '
         'every statement touching shared state, locks made cooperative; validated '
         'against the plain methods on 54 sequential scenarios on every run) and run '
         'under a symbolic schedule with a context bound, a symbolic process-exit '
         'moment, exit code, cancel presence and launch fault point; the advance/'
         'publish trace must show AGENT_EXECUTING once, exactly one hand-over with '
         'outcome and exactly one unschedule request per task; a bulk of two tasks one of '
         'whose launches fails leaves the sibling untouched.',
    note='Trusted: CrossHair/z3 path exhaustion; statement-level atomicity (GIL), '
         'pre-emption only at statements touching shared state; <= 2 pre-emptions '
         '(quick: second within 8 steps; 1 for the launch harness); fake process / '
         'os.killpg / script writers / find_launcher; faults after spawn, the '
         '_to_watcher loop itself (a second cancel_task caller stands in for it) and '
         'the Flux/Dragon executors are outside.  The NOOP executor (work / _collect as '
         'coroutines, fake clock) is covered by h_noop.',
    design='4/C07, 3.1'),
 'C08': dict(
    text='Bounded symbolic execution of the real cancel paths at the three places a '
         'request can meet a task on the pilot: component intake (_control_cb + '
         'work_cb + is_canceled), the sliced scheduler loop of C04 (cancel request at a '
         'symbolic position in an arrival/completion history) and the Popen coroutines '
         'of C07 with a named task and a bystander under a symbolic schedule.  Each '
         'history is run twice, with and without the request: the bystander must end '
         'up with the same reports / hand-over and keep its resources, the named task '
         'is canceled exactly once unless it had finished before the request was seen; '
         'requests naming several uids (unknown ones first) are covered; requests that '
         'wait in the scheduler\'s raptor backlog are canceled / relayed by name.',
    note='Trusted: as C04 and C07. Bounds: <= 3 tasks, 1 node x 4 cores, <= 3 events, '
         '<= 2 pre-emptions (quick 1); client-side TaskManager.cancel_tasks message '
         'construction and the tmgr-side components are outside.',
    design='4/C08'),
 'C12': dict(
    text='Bounded model checking of the real client-side schedulers by symbolic '
         'execution: a symbolic event sequence (submission of batches of named / unnamed '
         'tasks, add / remove pilot commands incl. several pilots per command, pilot '
         'state notifications, task state notifications) is applied to RoundRobin and '
         'Backfilling through the real work() / control_cb() / _base_state_cb() / '
         '_assign_pilot(); every forward is recorded with the pilot it names and that '
         "pilot's role and state at that moment: exactly one forward per task, named -> "
         'that pilot after it was added, unnamed -> a currently added pilot, waiting '
         'otherwise, round-robin spread <= 1, backfilling window / high-water mark / '
         'usage returning to zero (also for tasks bound early to a named pilot and for '
         'assigned cores exactly at the high-water mark); pilot eligibility is judged '
         'against the furthest state reported on any channel (state notifications '
         'before / after an add_pilots command carrying a possibly stale snapshot, '
         're-added pilots); tasks reporting AGENT_EXECUTING still occupy their pilot.',
    note='Trusted: CrossHair/z3 path exhaustion; session sandbox getters stubbed, locks '
         'no-op. Bounds: 2 pilots, <= 3 tasks per batch, 3 events (thorough 4), tasks of '
         '2 cores, pilots of 1..8 cores (concrete table: hwm uses float arithmetic).',
    design='4/C12'),
 'C16': dict(
    text='Bounded symbolic execution of the real forwarding closures created by '
         'Session._crosswire_proxy()/crosswire_pubsub() for one client and 1..3 pilots '
         'over an in-memory pubsub network (every delivery is a JSON round trip, as on '
         'the wire): originating side, channel, forward flag (absent/False/True) and '
         'origin marker (absent/own/other side/foreign) of up to two messages are solver '
         'variables; per-side delivery counts are checked after the network has run to '
         'quiescence under a hop budget; a second harness runs the real Agent/'
         'ClientComponent.advance -> publish and injects the produced message; a third '
         'delivers flagged messages while a forwarder is half wired (subscriber live, '
         'publisher not yet); a fourth publishes the typed messages of messages.py '
         '(RPC request / result, component start) through the real msgpack encoder.',
    note='Trusted: CrossHair/z3 path exhaustion; ZMQ pubsub modelled as exactly-once '
         'delivery per subscriber; proxy.py (the bridge processes themselves) and task '
         'queues are outside.',
    design='4/C16'),
 'C17': dict(
    text='(R2) The sizing arithmetic of PMGRLaunchingComponent._prepare_pilot is read '
         'from the current source and interpreted by a path-forking AST->z3 evaluator: '
         'requested nodes/cores/GPUs/backup nodes, node size, SMT factor and numbers of '
         'blocked cores/GPUs are z3 integers, / is real division, math.ceil a fresh '
         'integer with its defining inequalities, the resource config a shared symbolic '
         'record (two pilots prepared from one config object are covered).  For every '
         'path the negated property (smallest number of whole nodes covering cores and '
         'GPUs, plus backup nodes; job description and agent config agree) is given to '
         'z3: unsat = holds for all values in the stated ranges.  Run fully symbolic and '
         'once per shipped node shape; the encoding is validated against the sliced '
         'source on concrete sizes.  (R1) all shipped configs x schemas are resolved '
         'concretely through the real Session.get_resource_config and the factory '
         'tables, and the whole real _prepare_pilot is executed concretely for every '
         'shipped platform x schema x 6..9 boundary pilot sizes against the raw '
         'platform description (finite enumerations, stated as such).',
    note='Trusted: z3 4.x/5.x NIA/LRA verdicts (unknown is reported as inconclusive); '
         'float division treated as real division: Lemma F (QF_BVFP, z3 Float64: '
         'ceil(a / b) in binary64 equals the integer ceiling for all 1 <= b <= 2^k, 0 <= '
         'a <= b * 2^k) is discharged for k = 6 (quick) / k = 11 (thorough; k = 12 did not finish in 1400 s), larger '
         'operands are argued, not solver-checked; '
         'statements the evaluator cannot interpret make their targets unknown and the '
         'run fails if a needed output is lost; PilotDescription.verify() preconditions '
         'assumed.',
    design='4/C17',
    engine='z3-ast',
    technique='AST->SMT translation of the real function (z3), unsat verdict per path; '
              'models replayed on the sliced source'),
 'C18': dict(
    text='Bounded symbolic execution of the real resource manager initialisation '
         '(ResourceManager._init_from_scratch, _filter_nodes, _parse_nodefile, '
         '_get_cores_per_node, _get_node_list and Slurm / LSF / Torque / Cobalt / '
         'Fork / PBSPro.init_from_scratch): node list expression or node file lines (repeated '
         'host lines, login/batch pseudo nodes), cores/GPUs per node, SMT factor, '
         'requested and backup nodes, agent layout and blocked core/GPU sets are solver '
         'variables; the resulting RMInfo is checked (one entry per distinct usable '
         'host, unique indices, configured cell counts with exactly the blocked cells '
         'DOWN, reserved nodes disjoint from the offered list, 1 <= |node_list| <= '
         'requested nodes, derived node count for core- and GPU-bound requests, registry '
         'round trip).',
    note='Trusted: CrossHair/z3 path exhaustion; environment, node files, ssh probes '
         'faked (all backup nodes reachable); ru.get_hostlist real. Bounds: <= 4 hosts, '
         '<= 5 node file lines, <= 4 cores, <= 2 GPUs per node. PBSPro is driven '
         'through a generated `qstat -f` text (8 chunk layouts, folded output, '
         'node file fallback).  CCM (directory scan), Yarn and Debug RMs are outside '
         'the bound.',
    design='4/C18'),
 'C20': dict(
    text='Bounded symbolic execution of the real raptor code: (W1) one '
         'DefaultWorker._alloc/_dealloc step from an arbitrary occupancy of the '
         "worker's cores and GPUs; (W2) streams of 3 requests through _request_cb / "
         '_result_cb with symbolic demands, symbolic completion order while a request '
         'waits, and a symbolic process-start failure: running requests never share a '
         'core/GPU, everything is given back, every request is reported exactly once; '
         '(M1) Master._result_cb (exit code absent / None / symbolic integer, preset '
         'target state, failing application callback) and Master._submit_tasks routing '
         'for all 8 mode values; (X1) Worker._dispatch_func/_dispatch_eval/_dispatch_exec '
         'with payloads that return a symbolic integer, print, write stderr, raise or '
         'modify os.environ: exit code 0 iff success, value/output/exception reported, '
         'environment and stdio restored; (X2) the whole chain _alloc -> _dispatch / '
         '_worker_proc -> result queue -> _result_cb -> Master._result_cb for 7 kinds '
         'of request incl. failures raised out of the dispatcher; (M2) Master._run_task '
         '(task service): the requester gets its request back whether the result '
         'arrives during submit_tasks or later; (M3) the agent scheduler relays '
         'function-like requests to a raptor queue exactly once for every order of '
         '<= 3 (thorough 4) arrivals and queue registrations.',
    note='Trusted: CrossHair/z3 path exhaustion; multiprocessing.Process faked; '
         'demands within the worker size; _dispatch_proc/_dispatch_shell (real '
         'sub-processes), MPI workers and request time-outs are outside.',
    design='4/C20'),
 'C09': dict(
    text='Bounded symbolic execution of the real launch methods (Fork, SSH, RSH, MPIRun '
         'incl. MPT/RSH/CCMRUN, MPIExec incl. host file/-f/PALS/rank file, Srun, APRun, '
         'CCMRun, IBRun; instances via object.__new__ + real init_from_info): the '
         'placement (1..3 ranks, node per rank over 3 nodes, core mask over 4 cores, '
         'GPUs) and the launcher flavour are solver variables; a reader per launcher '
         'extracts process count, hosts and pinned cores from the command and any '
         'host/rank/node file it references (in-memory), which must equal the placement; '
         'commands are generated on a fresh instance and after another task (history '
         'independence); can_launch / ResourceManager.find_launcher must refuse what a '
         'method cannot place - also after a launcher was selected for another task; '
         '41..44 ranks cross the literal host-list thresholds.',
    note="Trusted: CrossHair/z3 path exhaustion; the readers encode the launchers' "
         'documented option syntax (ibrun: task offset = position of the first used core '
         'in allocation order); 43..45 distinct nodes cross the srun host-file '
         'threshold; JSRUN/ERF, PRTE, Flux, Dragon, mpirun_dplace are outside the '
         'claim.',
    design='4/C09'),
 'C10': dict(
    text='Bounded symbolic execution of the real script construction code (the exec '
         'script is the text the real _create_exec_script writes, captured at '
         'os.write; incl. the start-up notification line): (Q1) '
         'argument strings over a 10-character alphabet (space, quotes, backslash, glob '
         'characters, non-ASCII, empty string) up to length 3 (thorough 4) are quoted by '
         'LaunchMethod.get_exec/_create_arg_string/ru.sh_quote and read back by a POSIX '
         'word reader; (Q2) the exec script text assembled by the real _get_rp_env, '
         '_get_rank_ids, _get_task_env, _extend_pre_exec, _get_prep_exec, _get_exec for '
         'a symbolic description shape is executed by a line-level reader (RP_* '
         'variables, ordering, per-rank commands, failure propagation, exit code, '
         'OMP_NUM_THREADS / CUDA_VISIBLE_DEVICES); (Q3) Popen._handle_task stdout/stderr '
         'placement and the launch block (_get_launch/_get_prep_launch).',
    note='bash is not executed: the trusted base is the stated reader for exactly the '
         'line forms these functions emit (an unreadable line is a harness error); `$` '
         'and backquote in arguments are excluded (sh_quote documents that it does not '
         'neutralise them); the assembly used by the harness is validated against the '
         'real _create_exec_script on import.',
    design='4/C10'),
 'C11': dict(
    text='Bounded symbolic execution of the real staging code against a recording '
         'back end: directive form (string short forms with > >> < << or dictionary), '
         'source and target over tables of relative / absolute / every sandbox schema, '
         'action (all six), task outcome, stage_on_error and the failing back-end call '
         'are solver variables.  Checked: expansion (expand_staging_directives), URL '
         'resolution (complete_url under the four components\' real context '
         'dictionaries), exactly one operation of the right kind on the resolved URLs '
         'per directive by exactly one of tmgr/agent staging_input, agent/tmgr '
         'staging_output and StagingHelper.handle_staging_directive; no output '
         'operation for a failed task without stage_on_error; a failing operation '
         'fails its task only; the local back end (copy/link/move on an in-memory file '
         'system) fails on a missing source, and on a content-bearing in-memory file '
         'system (contents, mtimes, directories; cp flags by their documented '
         'semantics) the named target holds the content of the named source, also '
         'for directory targets written with a trailing slash and for two stagings to '
         'one target; the Session sandbox getters are stable under any order of '
         'look-ups.',
    note='Partial: the Python side only - bytes on disk, cp -r / SAGA semantics are '
         'outside (recorder / in-memory file system).  Known finding (TARBALL '
         'directives are never unpacked on the agent) is excluded by region and '
         'printed as KNOWN-FINDING.  Bounds: <= 2 directives per task, 2 tasks per bulk.',
    design='4/C11'),
 'C05': dict(
    text='PARTIAL (safety half): local lemmas decided by bounded symbolic execution of '
         'the real code at each hand-over point of the task pipeline: '
         'BaseComponent.work_cb (a raising work routine fails exactly the things of '
         'that bulk with the exception recorded, the component survives, canceled '
         'things stay CANCELED), Popen._check_running and Master._result_cb (DONE iff '
         'exit code 0, else FAILED with code and exception), AgentComponent.advance '
         '(agent-side FAILED/CANCELED handed to the client in full, once, not pushed), '
         'agent/tmgr output staging (final state == target state, FAILED if staging '
         'raised), TaskManager._update_tasks/Task._update (the published final state is '
         'what the application sees), CANCELED only after a cancel request (C04/C07), '
         'no task is left behind by the executor on any explored schedule nor by the '
         'agent scheduler (one intake of 1..3 tasks of mixed priorities on an idle or '
         'full pilot: each is started, waiting, failed or canceled, and all are '
         'started once the pilot drains).',
    note='The liveness half ("every task reaches exactly one final state as long as '
         'its pilot is alive") over ten OS processes and arbitrary ZMQ delivery orders '
         'cannot be encoded and is NOT claimed; the lemmas compose under the base-class '
         'contract that one component owns a task between advance() calls.',
    design='4/C05, 5'),
}

NOT_YET = 'check not built yet in this session (see DESIGN.md section 4 for the plan)'
