#!/usr/bin/env python3
"""Print the per-property table of DESIGN.md section 9 from evidence/*.json."""
import glob, json, os
here = os.path.dirname(os.path.dirname(os.path.abspath(__file__)))
print('| prop | harnesses (harness/cXX.py) | quick: obligations / paths / z3 queries / wall |')
print('|---|---|---|')
for f in sorted(glob.glob(os.path.join(here, 'evidence', 'C*.json'))):
    e = json.load(open(f)); c = e['coverage']
    print('| %s | %s | %d / %d / %d / %.0f s |' % (
        e['property_id'], ', '.join(sorted(c['harnesses'])), c['obligations'],
        c['evaluations'], c.get('solver_queries', 0), e['wall_s']))
