#!/usr/bin/env python3
import json, os, sys
HERE = os.path.dirname(os.path.dirname(os.path.abspath(__file__)))
sys.path.insert(0, os.path.join(HERE, 'tools'))
from claims import CLAIMS, NOT_YET
try:
    from claims import NOT_APPLICABLE
except ImportError:
    NOT_APPLICABLE = {}
try:
    from claims import SOURCE_COMMITS
except ImportError:
    SOURCE_COMMITS = []
props = [json.loads(l)['id'] for l in open(os.path.join(HERE, 'properties.jsonl'))]
checks = []
for p in props:
    if p not in CLAIMS: continue
    c = CLAIMS[p]
    checks.append({
        'property_id': p,
        'quick_cmd': './vcheck %s --tier quick' % p,
        'thorough_cmd': './vcheck %s --tier thorough' % p,
        'evidence_file': 'evidence/%s.json' % p,
        'replay_cmd_template': './vcheck %s --replay {path}' % p,
        'engine': c.get('engine', 'crosshair-z3'),
        'level_claimed': {'category': 'other', 'text': c['text'],
                          'design_ref': c.get('design', '')},
        'level_note': c['note'],
        'technique': c.get('technique',
            'solver-based bounded symbolic execution of the real Python code '
            '(CrossHair + z3): path tree exhausted per obligation, '
            'counterexamples replayed concretely'),
    })
na = [{'property_id': p, 'reason': NOT_APPLICABLE.get(p, NOT_YET)}
      for p in props if p not in CLAIMS]
man = {
 'version': 1,
 'setup_cmd': './setup.sh',
 'hooks': {'guard': 'RADICAL_PILOT_VERIF',
           'enable': 'no source hooks: harnesses construct the objects under test and patch module attributes inside the harness process only; ./vcheck exports RADICAL_PILOT_VERIF=1 (unused by /repo)',
           'baseline_off_cmd': './tools/baseline.sh',
           'source_commits': SOURCE_COMMITS,
           'add_only': True},
 'engines': [
  {'name': 'crosshair-z3', 'path': 'vfw/',
   'serves_properties': [c['property_id'] for c in checks if c['engine'] == 'crosshair-z3'],
   'kind_free_text': 'CrossHair 0.0.110 symbolic execution of the real Python functions with z3 5.1.0, driven via its library API from vfw/worker.py; one process per obligation; counterexamples re-executed concretely before being reported'},
  {'name': 'z3-ast', 'path': 'vfw/z3enc.py',
   'serves_properties': [c['property_id'] for c in checks if c['engine'] == 'z3-ast'],
   'kind_free_text': 'direct z3 encodings generated from the AST of the real function on every run (float/ceil arithmetic CrossHair cannot decide)'},
 ],
 'checks': checks,
 'not_applicable': na,
 'notes': 'Every claim is bounded; bounds, stubs and assumptions are written into each evidence file by the run that used them.  exit 2 = harness error, exit 3 = inconclusive (neither is success).',
}
json.dump(man, open(os.path.join(HERE, 'MANIFEST.json'), 'w'), indent=1)
import jsonschema
jsonschema.validate(man, json.load(open('/root/.vp/MANIFEST.schema.json')))
print('MANIFEST.json: %d checks, %d not_applicable' % (len(checks), len(na)))
