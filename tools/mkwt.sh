#!/bin/bash
# usage: mkwt.sh <name>   -> creates /tmp/wt/<name> as detached worktree of /repo HEAD
set -e
git -C /repo worktree add --detach /tmp/wt/$1 HEAD -q
echo /tmp/wt/$1
