#!/bin/bash
# usage: runall.sh [quick|thorough] [props...]   - run the registered checks one after the other
cd /verif
T=${1:-quick}; shift
P=${@:-C01 C02 C03 C04 C05 C06 C07 C08 C09 C10 C11 C12 C13 C14 C15 C16 C17 C18 C19 C20}
rc_all=0
for p in $P; do
  s=$(date +%s)
  ./vcheck $p --tier $T > /tmp/runall.$p.log 2>&1; rc=$?
  echo "$p rc=$rc $(( $(date +%s) - s ))s $(grep -E 'tier=|VIOLATION|KNOWN-FINDING|INCONCLUSIVE|HARNESS-ERROR' /tmp/runall.$p.log | tail -3 | tr '\n' ' ' | cut -c1-400)"
  [ $rc != 0 ] && rc_all=1
  rm -f /tmp/runall.$p.log
done
exit $rc_all
