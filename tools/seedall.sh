#!/bin/bash
# usage: seedall.sh [seed-name-glob]    (default: all of /verif/seeded/*)
# Regression over the stored seeded changes: for each one a scratch worktree of
# /repo gets the patch, the quick check of its property runs against it, and the
# worktree is removed.  Prints one line per seed; exit 1 if any seed is not
# reported as a VIOLATION (exit code 1) by its check.
cd /verif
PAT=${1:-*}
bad=0
for d in seeded/$PAT; do
  [ -f $d/patch.diff ] || continue
  n=$(basename $d); P=${n%%-*}
  W=/tmp/wt/seedall.$$
  git -C /repo worktree add --detach $W HEAD -q || exit 9
  if ! git -C $W apply /verif/$d/patch.diff; then
      echo "$n: patch does not apply"; bad=1
  else
      VERIF_REPO=$W PYTHONPATH=$W/src ./vcheck $P --tier quick --no-evidence > /tmp/seedall.$$.log 2>&1
      rc=$?
      if [ $rc = 1 ] && grep -q "^VIOLATION property=$P" /tmp/seedall.$$.log; then
          echo "$n: CAUGHT $(grep -c '^VIOLATION' /tmp/seedall.$$.log) violation line(s)"
      else
          echo "$n: NOT CAUGHT rc=$rc $(tail -1 /tmp/seedall.$$.log | cut -c1-150)"; bad=1
      fi
  fi
  git -C /repo worktree remove --force $W
  rm -f /tmp/seedall.$$.log
done
exit $bad
