#!/usr/bin/env python3
"""usage: seedkeep.py <PROP> <srcdir> <name> -- runs tools/seedtest.sh, and if demo
passes pristine / fails patched / baseline ok, stores the seed under seeded/<name>/
with the outcome of the check (caught / missed)."""
import sys, os, json, subprocess, shutil, re
prop, src, name = sys.argv[1:4]
checks = sys.argv[4:] or [prop]
out = subprocess.run(['/verif/tools/seedtest.sh', prop, src] + checks, capture_output=True, text=True).stdout
print(out[:6000])
m = re.findall(r'== (.*?)\n\s+rc=(\d+)', out)
res = dict(m)
ok_pristine = res.get('demo on pristine tree') == '0'
ok_patched  = res.get('demo with patch') == '1'
ok_base     = 'baseline: 95/95' in out
caught = {c: res.get('check %s (quick) with patch' % c) for c in checks}
if not (ok_pristine and ok_patched and ok_base):
    print('NOT KEPT: pristine=%s patched=%s baseline=%s' % (ok_pristine, ok_patched, ok_base)); sys.exit(1)
dst = '/verif/seeded/%s' % name
os.makedirs(dst, exist_ok=True)
for f in ('patch.diff', 'demo.py'):
    if os.path.realpath(src) != os.path.realpath(dst):
        shutil.copy(os.path.join(src, f), dst)
meta = json.load(open(os.path.join(src, 'meta.json')))
meta['property'] = prop
meta['confirmed'] = {'demo_pristine': 'PASS (rc 0)', 'demo_patched': 'FAIL (rc 1)',
                     'baseline_with_patch': '95/95 stable tests pass',
                     'ran': 'tools/seedtest.sh %s <dir> %s  (git apply on /repo, demo, tools/baseline.sh, ./vcheck <prop> --tier quick, git checkout -- .)' % (prop, ' '.join(checks))}
meta['check_result'] = {c: ('CAUGHT (exit 1, VIOLATION)'
                            if rc == '1' and ('VIOLATION property=%s' % c) in out
                            else 'exit %s' % rc) for c, rc in caught.items()}
if os.environ.get('ONLY'):
    meta['check_result']['note'] = ('machine time ran out: the check was run with --only %s '
                                    '(the harness this change concerns), not in full' % os.environ['ONLY'])
vio = re.findall(r'counterexample (.*)', out)
meta['counterexamples'] = vio[:3]
json.dump(meta, open(os.path.join(dst, 'meta.json'), 'w'), indent=1)
print('KEPT %s: %s' % (name, meta['check_result']))
