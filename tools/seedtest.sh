#!/bin/bash
# usage: seedtest.sh <PROP> <srcdir-with-patch.diff,demo.py,meta.json> [check-props...]
# Works in a scratch worktree of /repo (never in /repo itself): demo on the
# pristine tree (must PASS), git apply, demo (must FAIL), baseline (must pass),
# the quick checks of the listed properties against the patched worktree, then
# the worktree is removed.
P=$1; D=$2; shift 2; CHECKS=${@:-$P}
W=/tmp/wt/seedtest.$$
git -C /repo worktree add --detach $W HEAD -q || exit 9
trap "git -C /repo worktree remove --force $W" EXIT
echo "== demo on pristine tree"
( cd $W && PYTHONPATH=$W/src timeout 300 /venv/bin/python $D/demo.py >/tmp/seed_demo0.$$.log 2>&1; echo "   rc=$? $(tail -1 /tmp/seed_demo0.$$.log)" )
git -C $W apply $D/patch.diff || { echo "patch does not apply"; exit 8; }
echo "== demo with patch"
( cd $W && PYTHONPATH=$W/src timeout 300 /venv/bin/python $D/demo.py >/tmp/seed_demo1.$$.log 2>&1; echo "   rc=$? $(tail -1 /tmp/seed_demo1.$$.log)" )
echo "== baseline with patch"
BASELINE_REPO=$W /verif/tools/baseline.sh | head -3
for c in $CHECKS; do
  echo "== check $c (quick) with patch"
  ( cd /verif && VERIF_REPO=$W PYTHONPATH=$W/src ./vcheck $c --tier quick --no-evidence ${ONLY:+--only $ONLY} > /tmp/seed_check_$c.log 2>&1; echo "   rc=$?"; grep -E "counterexample|VIOLATION|HARNESS-ERROR|INCONCLUSIVE" /tmp/seed_check_$c.log | head -5; tail -1 /tmp/seed_check_$c.log )
done
rm -f /tmp/seed_demo0.$$.log /tmp/seed_demo1.$$.log
