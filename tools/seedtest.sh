#!/bin/bash
# usage: seedtest.sh <PROP> <srcdir-with-patch.diff,demo.py,meta.json> [check-props...]
# Applies the patch to /repo, runs demo (must FAIL), baseline (must pass), the
# quick checks of the listed properties (default: PROP), then reverts.  Also
# runs the demo on the pristine tree (must PASS).
P=$1; D=$2; shift 2; CHECKS=${@:-$P}
cd /repo || exit 9
if [ -n "$(git status --porcelain --untracked-files=no)" ]; then echo "repo dirty"; exit 9; fi
echo "== demo on pristine tree"
( cd /repo && PYTHONPATH=/repo/src timeout 300 /venv/bin/python $D/demo.py >/tmp/seed_demo0.log 2>&1; echo "   rc=$? $(tail -1 /tmp/seed_demo0.log)" )
git apply $D/patch.diff || { echo "patch does not apply"; exit 8; }
echo "== demo with patch"
( cd /repo && PYTHONPATH=/repo/src timeout 300 /venv/bin/python $D/demo.py >/tmp/seed_demo1.log 2>&1; echo "   rc=$? $(tail -1 /tmp/seed_demo1.log)" )
echo "== baseline with patch"
/verif/tools/baseline.sh | head -3
for c in $CHECKS; do
  echo "== check $c (quick) with patch"
  ( cd /verif && ./vcheck $c --tier quick --no-evidence > /tmp/seed_check_$c.log 2>&1; echo "   rc=$?"; grep -E "counterexample|VIOLATION|HARNESS-ERROR|INCONCLUSIVE" /tmp/seed_check_$c.log | head -5; tail -1 /tmp/seed_check_$c.log )
done
cd /repo && git checkout -- . && git status --porcelain --untracked-files=no
