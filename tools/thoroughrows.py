#!/usr/bin/env python3
"""Rows of DESIGN.md section 15 from the `vp run` logs (last result per property wins)."""
import re, glob, json, os
rows = {}
for n in sorted(int(os.path.basename(d)) for d in glob.glob('/root/.vp/runs/*') if os.path.basename(d).isdigit()):
    try:
        commit = json.load(open('/root/.vp/runs/%d/run.json' % n)).get('verif_commit', '')[:7]
        log = open('/root/.vp/runs/%d/log' % n).read()
    except Exception:
        continue
    if n == 1:
        continue          # first run: superseded definitions
    for m in re.finditer(r'^(C\d\d) rc=(\d+) (\d+)s (.*)$', log, re.M):
        p, rc, wall, rest = m.groups()
        mm = re.search(r'(\d+)/(\d+) obligations discharged, (\d+) paths.*?([\d.]+)s solver cpu(?: \((\d+) z3 queries)?', rest)
        if not mm: continue
        rows[p] = (rc, '%s/%s' % (mm.group(1), mm.group(2)), mm.group(3), mm.group(5) or '-', mm.group(4), wall, 'run %d, %s' % (n, commit), rest)
extra = os.path.join(os.path.dirname(os.path.dirname(os.path.abspath(__file__))), 'thorough_manual.txt')
if os.path.exists(extra):
    for line in open(extra):
        m = re.match(r'^(C\d\d) rc=(\d+) (\d+)s (.*?) @(.*)$', line.strip())
        if not m: continue
        p, rc, wall, rest, where = m.groups()
        mm = re.search(r'(\d+)/(\d+) obligations discharged, (\d+) paths.*?([\d.]+)s solver cpu(?: \((\d+) z3 queries)?', rest)
        rows[p] = (rc, '%s/%s' % (mm.group(1), mm.group(2)), mm.group(3), mm.group(5) or '-', mm.group(4), wall, where, rest)
for p in sorted(rows):
    r = rows[p]
    print('| %s | %s | %s | %s | %s | %s | %s | %s |' % (p, r[0], r[1], r[2], r[3], r[4], r[5], r[6]))
