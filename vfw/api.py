"""
What harness modules import.

A harness is a plain function with scalar (int / bool) parameters that builds
the object under test, calls the *real* code imported from /repo/src and states
the property with `check(...)` / `assert`.  It is registered with @obligation,
which only records metadata; the runner (vfw.run) generates a typed wrapper
with PEP-316 preconditions for CrossHair from that metadata.
"""

import collections

# ------------------------------------------------------------------------------
# twin / reachability machinery
#
TWIN     = None                    # label to witness (twin mode) or None
REACHED  = collections.Counter()   # label -> number of paths which reached it
TRACE    = []                      # free-form event trace (concrete replay only)
TRACING  = False


class Reached(AssertionError):
    pass


class Violation(AssertionError):
    pass


def reach(label='main'):
    """Mark that the interesting case has happened on this path."""
    REACHED[label] += 1
    if TWIN is not None and TWIN == label:
        raise Reached(label)


def check(cond, msg, *args):
    # `msg % args` is only formatted on failure: formatting symbolic values
    # eagerly would create string-theory terms on every path
    if not cond:
        if args:
            try:
                msg = msg % tuple(args)
            except Exception:
                msg = '%s %r' % (msg, args)
        raise Violation(msg)


def conc(i, lo, hi):
    # concretise a small symbolic int by case split (one path per value), so
    # that later float arithmetic / formatting sees a plain int
    for v in range(lo, hi + 1):
        if i == v:
            return v
    raise AssertionError('conc: %r outside [%d, %d]' % (i, lo, hi))


def trace(*ev):
    if TRACING:
        TRACE.append(repr(ev) if len(ev) != 1 else repr(ev[0]))


def real(fn, *args, **kwargs):
    """Call real code which, by the property, must not raise."""
    try:
        return fn(*args, **kwargs)
    except Exception as e:                          # never BaseException
        if isinstance(e, AssertionError) and isinstance(e, (Reached, Violation)):
            raise
        raise Violation('real code %s raised %s: %s'
                        % (getattr(fn, '__qualname__', fn), type(e).__name__, e))


# ------------------------------------------------------------------------------
# obligation registry
#
class Obligation(object):

    def __init__(self, fn, params, shapes, partition, timeout, twins, funcs,
                 bounds, stubs, assumes, about, path_timeout):
        self.fn        = fn
        self.name      = fn.__name__
        self.module    = fn.__module__
        self.params    = params       # ordered dict: name -> (lo, hi) | 'bool'
        self.shapes    = shapes       # tier -> list of kwargs dicts
        self.partition = partition    # (param, n_chunks) | None | tier->...
        self.timeout   = timeout      # tier -> cpu seconds per process
        self.twins     = twins
        self.funcs     = funcs
        self.bounds    = bounds
        self.stubs     = stubs
        self.assumes   = assumes
        self.about     = about
        self.path_timeout = path_timeout
        self.custom    = False


REGISTRY = collections.OrderedDict()   # module -> [Obligation]


def custom_obligation(**kw):
    """an obligation decided by the harness itself (direct z3 encodings):
    fn(tier=..., replay=None, **shape) -> {'status': 'confirmed'|'refuted'|
    'unknown', 'queries': n, 'args': {...} (counterexample, replayable),
    'why': str, ...}; with replay=<args> it re-executes the real code on the
    counterexample and raises Violation if it reproduces."""
    kw.setdefault('params', {})
    kw.setdefault('twins', ())
    def deco(fn):
        fn = obligation(**kw)(fn)
        fn._obligation.custom = True
        return fn
    return deco


def obligation(params, shapes=None, partition=None, timeout=None, twins=('main',),
               funcs=(), bounds='', stubs=(), assumes=(), about='',
               path_timeout=30):
    if shapes is None:
        shapes = {'quick': [{}], 'thorough': [{}]}
    if timeout is None:
        timeout = {'quick': 120, 'thorough': 900}
    if isinstance(timeout, (int, float)):
        timeout = {'quick': timeout, 'thorough': timeout}

    def deco(fn):
        ob = Obligation(fn, collections.OrderedDict(params), shapes, partition,
                        timeout, list(twins), list(funcs), bounds, list(stubs),
                        list(assumes), about or (fn.__doc__ or '').strip(),
                        path_timeout)
        REGISTRY.setdefault(fn.__module__, []).append(ob)
        fn._obligation = ob
        return fn
    return deco


# ------------------------------------------------------------------------------
# common fakes
#
class Null(object):
    """log / prof stand-in: every method is a no-op, args are never formatted."""
    _debug_level = 0
    def __getattr__(self, name):
        return _noop
    def __bool__(self):
        return True


def _noop(*a, **k):
    return None


class Recorder(object):
    """records calls: rec.calls -> [(name, args, kwargs)]"""
    def __init__(self):
        self.calls = []
    def __getattr__(self, name):
        def _rec(*a, **k):
            self.calls.append((name, a, k))
        return _rec
