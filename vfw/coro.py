"""
Threads -> coroutines, derived from the source on every run.

`make_coros(cls, names, shared)` reads the current source of the listed methods
of `cls` (following the MRO), and turns each into a *generator function*:

  * a `yield ('pt', <lineno>)` is inserted before every statement whose header
    mentions one of the `shared` tokens (the statements at which another thread
    can observe / influence this one),
  * a call `self.<m>(...)` to another listed method becomes
    `(yield from _CORO['<m>'](self, ...))`, wherever it occurs in an expression,
  * `with self.<x>_lock:` becomes a cooperative acquire loop
    (`while not lock.try_acquire(): yield ('blocked', ..)`) + try/finally
    release.

Nothing else changes; sequential equivalence with the original methods is
checked by the harnesses (vfw.coro.run_sequential vs. the plain method).

`Coop` is the deterministic scheduler: it runs the coroutines one at a time and
pre-empts the running one at the global step numbers given by the (symbolic)
schedule.
"""

import ast
import copy
import inspect
import textwrap


class CoopLock(object):
    """cooperative lock for coroutines (also usable as a plain context mgr)"""
    def __init__(self, name='lock'):
        self.name   = name
        self.holder = None
    def try_acquire(self, who=True):
        if self.holder is None:
            self.holder = who
            return True
        return False
    def release(self):
        self.holder = None
    def __enter__(self):
        assert self.holder is None, 'lock %s taken in sequential code' % self.name
        self.holder = True
        return self
    def __exit__(self, *a):
        self.holder = None
        return False


def _mentions(node, shared):
    try:
        txt = ast.unparse(node)
    except Exception:
        return True
    return any(tok in txt for tok in shared)


def _header(stmt):
    """the part of a statement that executes first (without nested bodies)"""
    if isinstance(stmt, (ast.If, ast.While)):
        return stmt.test
    if isinstance(stmt, ast.For):
        return stmt.iter
    if isinstance(stmt, ast.With):
        return ast.Tuple(elts=[i.context_expr for i in stmt.items],
                         ctx=ast.Load())
    if isinstance(stmt, ast.Try):
        return ast.Constant(value=None)
    return stmt


class _Tx(ast.NodeTransformer):

    def __init__(self, names, shared, cname='_CORO', auto=()):
        self.names  = names
        self.shared = shared
        self.cname  = cname
        self.auto   = set(auto)
        self.points = 0

    # calls to other coroutine methods
    def visit_Call(self, node):
        self.generic_visit(node)
        f = node.func
        if isinstance(f, ast.Attribute) and isinstance(f.value, ast.Name) \
           and f.value.id == 'self' and f.attr in self.auto:
            # helper pulled in automatically: an instance-level stub wins
            call = ast.Call(
                func=ast.Name(id='_coro_dispatch', ctx=ast.Load()),
                args=[ast.Name(id=self.cname, ctx=ast.Load()),
                      ast.Constant(value=f.attr),
                      ast.Name(id='self', ctx=ast.Load())] + node.args,
                keywords=node.keywords)
            return ast.YieldFrom(value=call)
        if isinstance(f, ast.Attribute) and isinstance(f.value, ast.Name) \
           and f.value.id == 'self' and f.attr in self.names:
            call = ast.Call(
                func=ast.Subscript(value=ast.Name(id=self.cname, ctx=ast.Load()),
                                   slice=ast.Constant(value=f.attr),
                                   ctx=ast.Load()),
                args=[ast.Name(id='self', ctx=ast.Load())] + node.args,
                keywords=node.keywords)
            return ast.YieldFrom(value=call)
        return node

    def visit_Lambda(self, node):
        return node

    def _yield_pt(self, stmt):
        self.points += 1
        return ast.Expr(value=ast.Yield(value=ast.Tuple(
            elts=[ast.Constant(value='pt'),
                  ast.Constant(value=getattr(stmt, 'lineno', 0))],
            ctx=ast.Load())))

    def _block(self, stmts):
        out = []
        for st in stmts:
            pre = _mentions(_header(st), self.shared)
            new = self._stmt(st)
            if pre:
                out.append(self._yield_pt(st))
            if isinstance(new, list):
                out.extend(new)
            else:
                out.append(new)
        return out

    def _stmt(self, st):
        if isinstance(st, ast.With) and len(st.items) == 1 and \
           ast.unparse(st.items[0].context_expr).endswith('_lock'):
            lock = st.items[0].context_expr
            body = self._block(st.body)
            acquire = ast.While(
                test=ast.UnaryOp(op=ast.Not(), operand=ast.Call(
                    func=ast.Attribute(value=copy.deepcopy(lock),
                                       attr='try_acquire', ctx=ast.Load()),
                    args=[], keywords=[])),
                body=[ast.Expr(value=ast.Yield(value=ast.Tuple(
                    elts=[ast.Constant(value='blocked'),
                          ast.Constant(value=ast.unparse(lock))],
                    ctx=ast.Load())))],
                orelse=[])
            rel = ast.Expr(value=ast.Call(
                func=ast.Attribute(value=copy.deepcopy(lock), attr='release',
                                   ctx=ast.Load()), args=[], keywords=[]))
            return [acquire, ast.Try(body=body, handlers=[], orelse=[],
                                     finalbody=[rel])]
        if isinstance(st, (ast.If, ast.While)):
            st.test   = self.visit(st.test)
            st.body   = self._block(st.body)
            st.orelse = self._block(st.orelse)
            return st
        if isinstance(st, ast.For):
            st.iter   = self.visit(st.iter)
            st.body   = self._block(st.body)
            st.orelse = self._block(st.orelse)
            return st
        if isinstance(st, ast.With):
            st.body = self._block(st.body)
            return st
        if isinstance(st, ast.Try):
            st.body      = self._block(st.body)
            for h in st.handlers:
                h.body   = self._block(h.body)
            st.orelse    = self._block(st.orelse)
            st.finalbody = self._block(st.finalbody)
            return st
        if isinstance(st, (ast.FunctionDef, ast.ClassDef)):
            return st
        return self.visit(st)


def _find(cls, name):
    for k in cls.__mro__:
        if name in k.__dict__:
            return k.__dict__[name], k
    raise AttributeError(name)


_N = [0]


def _coro_dispatch(coro, name, self, *args, **kwargs):
    inst = getattr(self, '__dict__', {})
    if name in inst:
        return inst[name](*args, **kwargs)     # stubbed on the instance: atomic
    ret = yield from coro[name](self, *args, **kwargs)
    return ret


def _takes_lock(tree):
    for w in ast.walk(tree):
        if isinstance(w, ast.With):
            for i in w.items:
                if ast.unparse(i.context_expr).endswith('_lock'):
                    return True
    return False


def _auto_helpers(cls, names):
    """
    Helper methods of radical.pilot reached through `self.x(...)` from the
    listed methods (transitively) which take a lock: they have to become
    coroutines as well, or a lock held by a pre-empted coroutine would be
    taken a second time by sequential code.  This keeps the transformation
    stable under extract-method refactorings of the real code.
    """
    seen, auto, work = set(names), [], list(names)
    while work:
        n = work.pop()
        try:
            fn, _ = _find(cls, n)
            fn    = getattr(fn, '__func__', fn)
            tree  = ast.parse(textwrap.dedent(inspect.getsource(fn)))
        except Exception:
            continue
        for node in ast.walk(tree):
            if not (isinstance(node, ast.Call)
                    and isinstance(node.func, ast.Attribute)
                    and isinstance(node.func.value, ast.Name)
                    and node.func.value.id == 'self'):
                continue
            x = node.func.attr
            if x in seen:
                continue
            seen.add(x)
            try:
                g, owner = _find(cls, x)
            except AttributeError:
                continue
            if not inspect.isfunction(g) or \
               not (owner.__module__ or '').startswith('radical.pilot'):
                continue
            try:
                src = textwrap.dedent(inspect.getsource(g))
                t   = ast.parse(src)
            except Exception:
                continue
            if 'super()' in src or any(isinstance(y, (ast.Yield, ast.YieldFrom))
                                       for y in ast.walk(t)):
                continue
            if _takes_lock(t):
                auto.append(x)
                work.append(x)
    return auto


def make_coros(cls, names, shared):
    """-> ({name: generator function}, info)"""
    coro = {}
    info = {}
    _N[0] += 1
    cname = '_CORO%d' % _N[0]
    auto  = _auto_helpers(cls, names)
    for name in list(names) + auto:
        fn, owner = _find(cls, name)
        fn   = getattr(fn, '__func__', fn)
        src  = textwrap.dedent(inspect.getsource(fn))
        tree = ast.parse(src)
        fdef = tree.body[0]
        assert isinstance(fdef, ast.FunctionDef) and fdef.name == name
        tx   = _Tx(set(names), shared, cname, auto)
        fdef.body = tx._block(fdef.body)
        fdef.decorator_list = []
        # make sure it is a generator even without any yield point
        fdef.body.append(ast.If(test=ast.Constant(value=False),
                                body=[ast.Expr(value=ast.Yield(value=None))],
                                orelse=[]))
        fdef.name = '_coro_' + name
        ast.fix_missing_locations(tree)
        mod = inspect.getmodule(fn)
        glb = mod.__dict__           # module globals: later patches are seen
        glb[cname] = coro
        glb['_coro_dispatch'] = _coro_dispatch
        # zero-arg super() needs a class cell; rewrite not supported
        assert 'super()' not in ast.unparse(fdef), \
               '%s uses super(): not supported' % name
        code = compile(tree, '<coroutine of %s.%s>' % (owner.__name__, name),
                       'exec')
        ns = {}
        exec(code, glb, ns)
        coro[name] = ns['_coro_' + name]
        info[name] = {'owner': owner.__name__, 'yield_points': tx.points,
                      'auto': name in auto,
                      'source': ast.unparse(tree)}
    return coro, info


def run_sequential(gen):
    """drive one coroutine to completion without pre-emption"""
    try:
        while True:
            ev = next(gen)
            if ev and ev[0] == 'blocked':
                raise RuntimeError('blocked on %s in sequential run' % ev[1])
    except StopIteration as e:
        return e.value


class Deadlock(Exception):
    pass


class Coop(object):
    """
    Deterministic scheduler.  `threads`: list of (name, generator).  The first
    runnable thread in list order runs; when the global step counter reaches a
    value in `switch_at` the running thread is pre-empted in favour of the
    next runnable one (round robin).  A thread that blocks on a lock is not
    runnable until the lock is free.
    """

    def __init__(self, threads, switch_at=(), fuel=400):
        self.threads   = [[n, g, True] for n, g in threads]   # name, gen, alive
        self.switch_at = list(switch_at)
        self.fuel      = fuel
        self.steps     = 0
        self.log       = []
        self.current   = None

    def _runnable(self, start):
        n = len(self.threads)
        for k in range(n):
            i = (start + k) % n
            if self.threads[i][2]:
                return i
        return None

    def run(self):
        cur = self._runnable(0)
        blocked_in_row = 0
        while cur is not None:
            name, gen, _ = self.threads[cur]
            self.current = name
            self.fuel -= 1
            if self.fuel < 0:
                raise Deadlock('out of fuel (livelock?)')
            try:
                ev = next(gen)
            except StopIteration:
                self.threads[cur][2] = False
                self.log.append((name, 'end'))
                cur = self._runnable(cur + 1)
                blocked_in_row = 0
                continue
            if ev and ev[0] == 'blocked':
                blocked_in_row += 1
                if blocked_in_row > 2 * len(self.threads) + 2:
                    raise Deadlock('all runnable threads blocked on %s' % ev[1])
                cur = self._runnable(cur + 1)
                continue
            blocked_in_row = 0
            self.steps += 1
            self.log.append((name, ev[1] if ev else None))
            if self.steps in self.switch_at:
                nxt = self._runnable(cur + 1)
                if nxt is not None:
                    cur = nxt
        return self.steps
