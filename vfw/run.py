"""
Runner:  python -m vfw.run <Cxx> [--tier quick|thorough] [--only substr]
                                 [--replay file] [--jobs N] [--list]

exit 0  every obligation discharged within its bound (known findings printed)
exit 1  a counterexample was found by the solver AND reproduced by a plain
        concrete re-execution of the real code  (VIOLATION line printed)
exit 2  harness error (counterexample does not reproduce, vacuous twin,
        harness crashed)
exit 3  inconclusive (some obligation neither discharged nor refuted in budget)
"""

import os
import sys
import ast
import json
import time
import glob
import hashlib
import argparse
import tempfile
import importlib
import subprocess
import collections
import concurrent.futures as cf

HERE = os.path.dirname(os.path.dirname(os.path.abspath(__file__)))
REPO = os.environ.get('VERIF_REPO', '/repo')
# the per-obligation CPU budgets in the harnesses were sized on this sandbox
# with a margin of >= 2; the factor adds head room for slower machines (a
# budget only matters when an exploration does not terminate in time: then the
# obligation is reported inconclusive, never as passed)
TIMEOUT_FACTOR = float(os.environ.get('VERIF_TIMEOUT_FACTOR', '2'))
PY   = sys.executable


# ------------------------------------------------------------------------------
#
def run_worker(mode, spec, wall):
    fd, path = tempfile.mkstemp(prefix='spec_', suffix='.json',
                                dir=spec.get('gen_dir') or None)
    with os.fdopen(fd, 'w') as fout:
        json.dump(spec, fout)
    t0 = time.time()
    try:
        p = subprocess.run([PY, '-m', 'vfw.worker', mode, path], cwd=HERE,
                           stdout=subprocess.PIPE, stderr=subprocess.PIPE,
                           timeout=wall, text=True, errors='replace')
        out = p.stdout
        idx = out.rfind('\nRESULT ')
        if idx < 0:
            res = {'status': 'error',
                   'why': 'no RESULT (rc=%s): %s' % (p.returncode,
                                                     (p.stderr or out)[-3000:])}
        else:
            res = json.loads(out[idx + 8:].strip().splitlines()[0])
    except subprocess.TimeoutExpired:
        res = {'status': 'unknown', 'why': 'wall timeout %ss' % wall}
    finally:
        try:
            os.unlink(path)
        except OSError:
            pass
    res.setdefault('wall_s', round(time.time() - t0, 3))
    return res


def partitions(ob, tier, ranges=None):
    part = ob.partition
    if isinstance(part, dict):
        part = part.get(tier)
    if not part:
        return [None]
    pname, n = part
    lo, hi = (ranges or {}).get(pname) or ob.params[pname]
    size   = hi - lo + 1
    n      = min(n, size)
    out    = []
    base, extra = divmod(size, n)
    cur = lo
    for i in range(n):
        w = base + (1 if i < extra else 0)
        out.append({pname: (cur, cur + w - 1)})
        cur += w
    return out


# ------------------------------------------------------------------------------
#
_src_cache = {}


def func_hash(relfile, qualname, lineno):
    path = os.path.join(REPO, relfile)
    if path not in _src_cache:
        try:
            with open(path) as fin:
                src = fin.read()
            tree = ast.parse(src)
            idx  = {}
            for node in ast.walk(tree):
                if isinstance(node, (ast.FunctionDef, ast.AsyncFunctionDef)):
                    seg = ast.get_source_segment(src, node) or ''
                    idx[node.lineno] = hashlib.sha1(seg.encode()).hexdigest()[:12]
                    for d in node.decorator_list:
                        idx[d.lineno] = idx[node.lineno]
            _src_cache[path] = idx
        except Exception:
            _src_cache[path] = {}
    return _src_cache[path].get(lineno, '?')


# ------------------------------------------------------------------------------
#
def load_known(prop):
    path = os.path.join(HERE, 'known_findings.json')
    if not os.path.exists(path):
        return [], []
    with open(path) as fin:
        data = json.load(fin)
    finds = [f for f in data.get('findings', []) if f['property'] == prop]
    fixed = [f for f in data.get('fixed', [])
             if ('property=%s ' % prop) in f]
    return finds, fixed


# ------------------------------------------------------------------------------
#
def main():

    ap = argparse.ArgumentParser()
    ap.add_argument('prop')
    ap.add_argument('--tier', default=os.environ.get('VERIF_TIER', 'quick'))
    ap.add_argument('--only', default=None)
    ap.add_argument('--replay', default=None)
    ap.add_argument('--jobs', type=int, default=0)
    ap.add_argument('--list', action='store_true')
    ap.add_argument('--no-evidence', action='store_true')
    args = ap.parse_args()

    prop = args.prop.upper()
    tier = args.tier
    seed = int(os.environ.get('VERIF_SEED', '0') or 0)
    t00  = time.time()

    sys.path.insert(0, HERE)
    import vfw.shim                                              # noqa: F401
    import vfw.api as api
    modname = 'harness.%s' % prop.lower()
    importlib.import_module(modname)
    obls = [ob for m, lst in api.REGISTRY.items() for ob in lst
            if m == modname or m.startswith(modname + '_')]
    hmod = sys.modules[modname]

    # one scratch directory per run: two runs of the same property at the same
    # time must not share (and delete) each other's generated wrappers
    gen_dir = os.path.join(HERE, '.gen', '%s.%d' % (prop, os.getpid()))
    os.makedirs(gen_dir, exist_ok=True)
    import atexit, shutil
    atexit.register(shutil.rmtree, gen_dir, True)
    os.makedirs(os.path.join(HERE, 'replays'),  exist_ok=True)
    os.makedirs(os.path.join(HERE, 'evidence'), exist_ok=True)

    # --------------------------------------------------------------------------
    if args.replay:
        with open(args.replay) as fin:
            rp = json.load(fin)
        res = run_worker('replay', {'module': rp['module'], 'name': rp['harness'],
                                    'shape': rp['shape'], 'args': rp['args'],
                                    'gen_dir': gen_dir}, 600)
        print(json.dumps(res, indent=1))
        if res.get('raised') and res.get('exc_kind') == 'violation':
            print('VIOLATION property=%s replay=%s' % (prop, args.replay))
            return 1
        return 0

    if args.only:
        obls = [ob for ob in obls if args.only in ob.name]
    if args.list:
        for ob in obls:
            print(ob.name, dict(ob.params), ob.shapes.get(tier))
        return 0

    njobs = args.jobs or int(os.environ.get('VERIF_JOBS', '0') or 0) \
                      or min(16, os.cpu_count() or 4)

    # --------------------------------------------------------------------------
    # known findings: replay the witness; still failing -> exclude its region
    finds, fixed = load_known(prop)
    excl  = collections.defaultdict(list)
    known_seen = []
    for f in finds:
        res = run_worker('replay', {'module': f['module'], 'name': f['harness'],
                                    'shape': f['witness'].get('shape') or {},
                                    'args' : f['witness']['args'],
                                    'gen_dir': gen_dir}, 600)
        if res.get('raised') and res.get('exc_kind') == 'violation':
            print('KNOWN-FINDING: property=%s %s' % (prop, f['what']))
            known_seen.append({'id': f.get('id'), 'what': f['what'],
                               'harness': f['harness'], 'region': f['region'],
                               'witness_msg': res.get('msg', '')[:300]})
            excl[(f['module'], f['harness'])].append(f['region'])
        else:
            print('note: known finding %s no longer reproduces on this tree; '
                  'its region is checked like any other' % f.get('id'))

    # --------------------------------------------------------------------------
    jobs = []
    for ob in obls:
        for shape in (ob.shapes[tier] if tier in ob.shapes else [{}]):
            shape  = dict(shape)
            ranges = shape.pop('_ranges', None)
            base = {'module': ob.module, 'name': ob.name, 'shape': shape,
                    'gen_dir': gen_dir, 'ranges': ranges, 'tier': tier,
                    'path_timeout': ob.path_timeout,
                    'excl': excl.get((ob.module, ob.name), [])}
            for tw in ob.twins:
                spec = dict(base, twin=tw, timeout=min(ob.timeout[tier], 90))
                jobs.append(('twin', ob, spec))
            for part in partitions(ob, tier, ranges):
                spec = dict(base, twin=None, part=part,
                            timeout=ob.timeout[tier] * TIMEOUT_FACTOR)
                jobs.append(('main', ob, spec))

    print('%s tier=%s: %d obligations (%d harnesses) on %d processes'
          % (prop, tier, len(jobs), len(obls), njobs))
    sys.stdout.flush()

    results = []

    def _run(job):
        kind, ob, spec = job
        # CPU budget per obligation is spec['timeout'] (process time, inside
        # the worker); the wall limit only guards against a hung worker and
        # must hold on a loaded machine as well
        res = run_worker('check', spec, spec['timeout'] * 8 + 600)
        return job, res

    with cf.ThreadPoolExecutor(max_workers=njobs) as ex:
        for job, res in ex.map(_run, jobs):
            kind, ob, spec = job
            results.append((kind, ob, spec, res))
            tag = '%s%s %s %s' % (ob.name, '' if kind == 'main' else
                                  '[twin:%s]' % spec['twin'],
                                  json.dumps(spec['shape'], sort_keys=True),
                                  json.dumps(spec.get('part') or {}))
            print('  %-9s %6s paths %7.1fs  %s %s'
                  % (res.get('status'), res.get('paths', '-'),
                     res.get('wall_s', 0), tag,
                     ('' if res.get('status') in ('confirmed', 'refuted')
                      else str(res.get('why'))[:300])))
            sys.stdout.flush()

    # --------------------------------------------------------------------------
    violations = []
    herrors    = []
    inconcl    = []
    samples    = []
    called     = set()
    n_obl      = 0
    n_dis      = 0
    twins_ok   = 0
    twins_all  = 0
    paths      = 0
    reached    = 0
    cpu        = 0.0
    queries    = 0
    z3cpu      = 0.0

    for kind, ob, spec, res in results:
        paths += int(res.get('paths') or 0)
        cpu   += float(res.get('cpu_s') or 0)
        z3cpu += float(res.get('z3_s') or 0)
        st     = res.get('status')
        if kind == 'twin':
            twins_all += 1
            if st == 'refuted' and str(res.get('exc', '')).startswith('Reached'):
                rr = run_worker('replay', dict(spec, args=res['args']), 600)
                if rr.get('raised') and rr.get('exc_kind') == 'reached':
                    twins_ok += 1
                    called.update(tuple(c) for c in rr.get('called') or [])
                    if len(samples) < 12:
                        samples.append({'harness': ob.name, 'shape': spec['shape'],
                                        'witness_reaching': spec['twin'],
                                        'args': res['args'],
                                        'trace': (rr.get('trace') or [])[:12]})
                else:
                    herrors.append('twin %s[%s] witness %s does not replay: %s'
                                   % (ob.name, spec['twin'], res.get('args'),
                                      str(rr)[:400]))
            elif st == 'refuted':
                # the twin ran into a real violation/err before reaching: the
                # main run decides; twin not counted as vacuous
                twins_ok += 1
            elif st == 'confirmed':
                herrors.append('VACUOUS: twin %s[%s] %s cannot reach its '
                               'assertion' % (ob.name, spec['twin'],
                                              spec['shape']))
            else:
                inconcl.append('twin %s[%s] %s: %s' % (ob.name, spec['twin'],
                               spec['shape'], res.get('why')))
            continue

        n_obl   += 1
        reached += sum((res.get('reached') or {}).values())
        if res.get('queries'):
            queries += int(res['queries'])
        for smp in (res.get('samples') or [])[:4]:
            if len(samples) < 16:
                samples.append({'harness': ob.name, 'sample': smp})
        called.update(tuple(c) for c in res.get('called') or [])
        if st == 'confirmed':
            n_dis += 1
        elif st == 'refuted':
            rr = run_worker('replay', dict(spec, args=res['args']), 600)
            if rr.get('raised') and rr.get('exc_kind') == 'violation':
                violations.append((ob, spec, res, rr))
            elif rr.get('raised'):
                herrors.append('%s %s args=%s: non-assertion error %s: %s\n%s'
                               % (ob.name, spec['shape'], res['args'],
                                  rr.get('exc_type'), rr.get('msg'),
                                  rr.get('tb', '')[-1500:]))
            else:
                herrors.append('%s %s: counterexample %s (%s) does not '
                               'reproduce concretely'
                               % (ob.name, spec['shape'], res['args'],
                                  res.get('exc')))
        elif st == 'error':
            herrors.append('%s %s: worker error: %s'
                           % (ob.name, spec['shape'], res.get('why')))
        else:
            inconcl.append('%s %s %s: %s' % (ob.name, spec['shape'],
                                             spec.get('part'), res.get('why')))

    # --------------------------------------------------------------------------
    vio_lines = []
    for i, (ob, spec, res, rr) in enumerate(violations):
        rpath = os.path.join(HERE, 'replays', '%s-%s-%d.json'
                             % (prop, ob.name, i))
        with open(rpath, 'w') as fout:
            json.dump({'property': prop, 'module': ob.module,
                       'harness': ob.name, 'shape': spec['shape'],
                       'args': res['args'], 'assertion': rr.get('msg'),
                       'solver_report': res.get('exc'),
                       'trace': rr.get('trace'), 'tb': rr.get('tb')},
                      fout, indent=1)
        vio_lines.append('VIOLATION property=%s replay=%s' % (prop, rpath))
        print('  counterexample %s%s args=%s: %s'
              % (ob.name, spec['shape'], res['args'], rr.get('msg')))

    funcs = sorted({'%s:%s@%s' % (f, q, func_hash(f, q, ln))
                    for f, q, ln in called})

    wall = round(time.time() - t00, 2)
    meta = getattr(hmod, 'META', {})
    ev = {
        'property_id': prop,
        'tier'       : tier,
        'seed'       : seed,
        'level'      : 'other',
        'wall_s'     : wall,
        'violations' : len(violations),
        'assumptions': sorted({a for ob in obls for a in ob.assumes}
                              | set(meta.get('assumes', []))),
        'coverage'   : {
            'explanation': meta.get('explanation', '') or (
                'Bounded symbolic execution (CrossHair 0.0.110 + z3) of the '
                'real functions listed in functions_encoded; each obligation '
                'is one harness x shape x partition whose path tree was '
                'exhausted by the solver ("confirmed") within the stated '
                'bounds.'),
            'technique'         : 'solver-based bounded symbolic execution of '
                                  'the real code (CrossHair+z3), counterexamples '
                                  'replayed concretely',
            'obligations'       : n_obl,
            'discharged'        : n_dis,
            'inconclusive'      : inconcl,
            'harness_errors'    : herrors,
            'evaluations'       : paths,
            'distinct_nontrivial': reached,
            'rule'              : 'evaluations = execution paths explored by '
                                  'the solver-guided search (each path stands '
                                  'for all inputs that take it); '
                                  'distinct_nontrivial = paths that reached the '
                                  "harness's property assertion (api.reach), "
                                  'counted in the worker processes',
            'paths_total'       : paths,
            'solver_queries'    : queries,
            'solver_cpu_s'      : round(cpu, 1),
            'z3_check_cpu_s'    : round(z3cpu, 1),
            'solver_note'       : 'solver_queries = z3 check() calls issued by '
                                  'the symbolic execution (branch feasibility '
                                  'and model queries) or by the direct '
                                  'encodings; solver_cpu_s = CPU seconds of the '
                                  'whole analysis (symbolic execution + z3), '
                                  'z3_check_cpu_s = the part spent inside '
                                  'check()',
            'vacuity_twins'     : twins_all,
            'vacuity_twins_ok'  : twins_ok,
            'bounds'            : {ob.name: {'params': {k: v for k, v in
                                                        ob.params.items()},
                                             'shapes': ob.shapes.get(tier),
                                             'text'  : ob.bounds}
                                   for ob in obls},
            'stubs'             : sorted({s for ob in obls for s in ob.stubs}),
            'harnesses'         : {ob.name: ob.about for ob in obls},
            'functions_encoded' : funcs,
            'known_findings_seen': known_seen,
            'fixed_records'     : fixed,
            'samples'           : samples or [{'note': 'no twin witness'}],
            'exhaustive'        : False,
        },
    }
    if not args.no_evidence and not args.only:
        with open(os.path.join(HERE, 'evidence', '%s.json' % prop), 'w') as fout:
            json.dump(ev, fout, indent=1, sort_keys=True, default=repr)

    print('%s tier=%s: %d/%d obligations discharged, %d paths, twins %d/%d, '
          '%.1fs wall, %.1fs solver cpu (%d z3 queries, %.1fs in z3)'
          % (prop, tier, n_dis, n_obl, paths, twins_ok, twins_all, wall, cpu,
             queries, z3cpu))

    if vio_lines:
        for line in vio_lines:
            print(line)
        return 1
    if herrors:
        for h in herrors:
            print('HARNESS-ERROR: %s' % h)
        return 2
    if inconcl:
        for h in inconcl:
            print('INCONCLUSIVE: %s' % h)
        return 3
    return 0


if __name__ == '__main__':
    sys.exit(main())
