"""
Import shim: makes `import radical.pilot` work on this checkout without
writing anything into /repo (src/radical/pilot/VERSION is git-ignored and
absent, so rp's own `ru.get_version(_mod_root)` raises).  Only the harness
process is affected.
"""

import os
import sys

os.environ.setdefault('RADICAL_PILOT_VERIF', '1')
os.environ.setdefault('RADICAL_LOG_LVL', 'OFF')
os.environ.setdefault('RADICAL_REPORT', 'FALSE')

REPO = os.environ.get('VERIF_REPO', '/repo')
SRC  = os.path.join(REPO, 'src')

import radical.utils as ru                                        # noqa: E402

_orig_get_version = ru.get_version


def _get_version(*a, **k):
    try:
        return _orig_get_version(*a, **k)
    except Exception:
        return ('0.0.0', '0.0.0', 'verif', 'verif', '0.0.0-verif')


ru.get_version = _get_version

import radical.pilot as rp                                        # noqa: E402

assert os.path.realpath(rp.__file__).startswith(os.path.realpath(SRC)), \
       'radical.pilot is not imported from %s: %s' % (SRC, rp.__file__)
