"""
One obligation (harness x shape x partition) in one process.

  python -m vfw.worker check  <spec.json>    symbolic execution (CrossHair/z3)
  python -m vfw.worker replay <spec.json>    plain concrete re-execution

The last stdout line is `RESULT <json>`.
"""

import os
import re
import sys
import ast
import json
import time
import hashlib
import inspect
import importlib
import importlib.util
import traceback
import collections


def _load_harness(spec):
    import vfw.shim                                              # noqa: F401
    mod = importlib.import_module(spec['module'])
    fn  = getattr(mod, spec['name'])
    return mod, fn


# ------------------------------------------------------------------------------
#
def gen_wrapper_src(spec, ob):
    """typed wrapper with PEP316 preconditions, generated from the metadata"""

    params = ob.params
    part   = dict(spec.get('ranges') or {})     # shape-specific ranges
    part.update(spec.get('part') or {})         # narrowed by the partition
    sig    = []
    pres   = []
    for p, dom in params.items():
        if dom == 'bool':
            sig.append('%s: bool' % p)
        else:
            lo, hi = part.get(p) or dom
            sig.append('%s: int' % p)
            pres.append('%d <= %s <= %d' % (lo, p, hi))
    for region in spec.get('excl') or []:
        pres.append('not (%s)' % region)

    lines  = ['import vfw.api as _api',
              'import %s as _H' % spec['module'],
              '_SHAPE = %r' % (spec.get('shape') or {}),
              '',
              'def w(%s) -> None:' % ', '.join(sig),
              "    '''"]
    for pre in pres:
        lines.append('    pre: %s' % pre)
    lines += ['    post: True',
              "    '''",
              '    _H.%s(%s, **_SHAPE)' % (spec['name'],
                                           ', '.join(params.keys())),
              '']
    return '\n'.join(lines)


_CALL_RE = re.compile(r'when calling w\((.*?)\)(?: \(which returns|$| with )',
                      re.S)


def parse_call(msg, params):
    m = _CALL_RE.search(msg)
    if not m:
        return None
    try:
        call = ast.parse('w(%s)' % m.group(1), mode='eval').body
        args = [ast.literal_eval(a) for a in call.args]
        kw   = {k.arg: ast.literal_eval(k.value) for k in call.keywords}
    except Exception:
        return None
    names = list(params.keys())
    out   = dict(zip(names, args))
    out.update(kw)
    if set(out) != set(names):
        return None
    return out


# ------------------------------------------------------------------------------
#
def do_check(spec):

    import vfw.api as api
    mod, fn = _load_harness(spec)
    ob      = fn._obligation

    api.TWIN = spec.get('twin')
    api.REACHED.clear()

    if getattr(ob, 'custom', False):
        t0 = time.time()
        c0 = time.process_time()
        res = fn(tier=spec.get('tier', 'quick'), replay=None,
                 **(spec.get('shape') or {}))
        res.setdefault('paths', res.get('queries', 0))
        res.setdefault('reached', {'main': res.get('queries', 0)})
        res['wall_s'] = round(time.time() - t0, 3)
        res['cpu_s']  = round(time.process_time() - c0, 3)
        return res

    gen_dir = spec['gen_dir']
    os.makedirs(gen_dir, exist_ok=True)
    src   = gen_wrapper_src(spec, ob)
    wname = 'w_%s' % hashlib.sha1(
            json.dumps(spec, sort_keys=True).encode()).hexdigest()[:12]
    path  = os.path.join(gen_dir, wname + '.py')
    with open(path, 'w') as fout:
        fout.write(src)
    sp = importlib.util.spec_from_file_location(wname, path)
    wm = importlib.util.module_from_spec(sp)
    sys.modules[wname] = wm
    sp.loader.exec_module(wm)

    from crosshair.core import analyze_function, run_checkables
    from crosshair.options import AnalysisOptionSet
    import crosshair.core_and_libs                               # noqa: F401

    # count the z3 satisfiability queries CrossHair issues and their time
    import crosshair.statespace as _ss
    zq = {'n': 0, 't': 0.0}
    _orig_sat = _ss.solver_is_sat

    from crosshair.tracers import NoTracing

    def _counting_sat(solver, *exprs):
        with NoTracing():           # the clock is symbolic while tracing
            zq['n'] += 1
            t = time.process_time()
            try:
                return _orig_sat(solver, *exprs)
            finally:
                zq['t'] += time.process_time() - t
    _ss.solver_is_sat = _counting_sat

    stats = collections.Counter()
    opts  = AnalysisOptionSet(
                per_condition_timeout=float(spec['timeout']),
                per_path_timeout=float(spec.get('path_timeout', 30)),
                max_uninteresting_iterations=sys.maxsize,
                report_all=True,
                stats=stats)
    t0   = time.time()
    c0   = time.process_time()
    cs   = analyze_function(wm.w, opts)
    msgs = run_checkables(cs)
    res  = {'status' : 'unknown',
            'paths'  : int(stats.get('num_paths', 0)),
            'wall_s' : round(time.time() - t0, 3),
            'cpu_s'  : round(time.process_time() - c0, 3),
            'queries': zq['n'],
            'z3_s'   : round(zq['t'], 3),
            'reached': dict(api.REACHED),
            'msgs'   : [(m.state.name, m.message[:2000]) for m in msgs]}
    states = [m.state.name for m in msgs]
    if not msgs:
        res['status'] = 'unknown'
        res['why']    = 'no conditions analysed'
    elif any(s in ('EXEC_ERR', 'POST_FAIL', 'POST_ERR') for s in states):
        m = [m for m in msgs
             if m.state.name in ('EXEC_ERR', 'POST_FAIL', 'POST_ERR')][0]
        args = parse_call(m.message, ob.params)
        res['status'] = 'refuted'
        res['args']   = args
        res['exc']    = m.message.split(' when calling ')[0][:2000]
        if args is None:
            res['status'] = 'unknown'
            res['why']    = 'counterexample not parseable: %s' % m.message[:500]
    elif all(s == 'CONFIRMED' for s in states):
        res['status'] = 'confirmed'
    else:
        res['status'] = 'unknown'
        res['why']    = '; '.join('%s: %s' % (m.state.name, m.message[:300])
                                  for m in msgs)
    try:
        os.unlink(path)
    except OSError:
        pass
    return res


# ------------------------------------------------------------------------------
#
def do_replay(spec):

    import vfw.api as api
    mod, fn = _load_harness(spec)
    ob      = fn._obligation

    api.TWIN    = spec.get('twin')
    api.TRACING = True
    api.TRACE.clear()
    api.REACHED.clear()

    called = set()
    src    = os.path.realpath(os.environ.get('VERIF_REPO', '/repo'))

    def prof(frame, event, arg):
        if event == 'call':
            co = frame.f_code
            fnm = co.co_filename
            if fnm.startswith(src) and 'radical/pilot' in fnm:
                called.add((fnm[len(src) + 1:], co.co_qualname, co.co_firstlineno))

    args = spec['args']
    res  = {'raised': False}
    sys.setprofile(prof)
    try:
        if getattr(ob, 'custom', False):
            fn(tier=spec.get('tier', 'quick'), replay=args,
               **(spec.get('shape') or {}))
        else:
            fn(*[args[p] for p in ob.params.keys()],
               **(spec.get('shape') or {}))
    except Exception as e:
        sys.setprofile(None)
        res['raised']   = True
        res['exc_type'] = type(e).__name__
        res['exc_kind'] = ('reached'   if isinstance(e, api.Reached)   else
                           'violation' if isinstance(e, AssertionError) else
                           'error')
        res['msg']      = str(e)[:4000]
        res['tb']       = traceback.format_exc()[-6000:]
    finally:
        sys.setprofile(None)
    res['trace']   = api.TRACE[:400]
    res['reached'] = dict(api.REACHED)
    res['called']  = sorted(called)
    return res


# ------------------------------------------------------------------------------
#
def main():
    mode = sys.argv[1]
    with open(sys.argv[2]) as fin:
        spec = json.load(fin)
    try:
        if mode == 'check':
            res = do_check(spec)
        else:
            res = do_replay(spec)
    except Exception:
        res = {'status': 'error', 'why': traceback.format_exc()[-6000:]}
    sys.stdout.flush()
    print('\nRESULT ' + json.dumps(res, default=repr))
    sys.stdout.flush()
    os._exit(0)


if __name__ == '__main__':
    main()
