"""
E2: a small path-forking symbolic evaluator from Python AST to z3 terms.

It interprets the top-level statements of a function body (read from the
current source) over z3 integers / reals:

  * `x = <arith>`, `x -= ..`, `x *= ..`, if/elif/else, assert, raise,
    `a or b`, `a and b`, not, comparisons, + - * / //, max, min, len,
    math.ceil, math.floor, int, bool
  * reading `<rec>.attr` of a designated shared *record* (e.g. `rcfg`) yields
    the record's current symbolic field; assigning to it updates the field
    (so that state leaking from one call into the next is modelled)
  * `<out>.attr = e` / `<out>['key'] = e` for designated output objects
    (e.g. jd_dict, agent_cfg) records e
  * a right-hand side the evaluator cannot interpret makes the target a named
    *input* symbol (`pilot['description']['cores']` -> in_requested_cores);
    for a stated set of input names; any other uninterpretable statement
    havocs the names it assigns
  * an `if` whose test cannot be interpreted is not followed: the names it
    assigns become unknown

Every path yields (path condition, environment, outputs, status).
`/` between integers is real division; the IEEE-754 gap is discussed in
DESIGN.md (lemma F).
"""

import ast
import z3


class Unknown(object):
    def __repr__(self): return '<unknown>'


UNK = Unknown()


class SymList(object):
    """opaque list with a symbolic length"""
    def __init__(self, name):
        self.len = z3.Int('len_' + name)


class Raise(Exception):
    pass


def is_z3(v):
    return isinstance(v, z3.ExprRef)


def to_arith(v):
    if isinstance(v, bool):
        return z3.IntVal(1 if v else 0)
    if isinstance(v, int):
        return z3.IntVal(v)
    if isinstance(v, float):
        return z3.RealVal(v)
    if is_z3(v) and z3.is_bool(v):
        return z3.If(v, z3.IntVal(1), z3.IntVal(0))
    return v


def unify(a, b):
    a, b = to_arith(a), to_arith(b)
    if is_z3(a) and is_z3(b):
        if a.sort() != b.sort():
            if z3.is_int(a): a = z3.ToReal(a)
            if z3.is_int(b): b = z3.ToReal(b)
    return a, b


def truthy(v):
    if v is UNK:
        return None
    if isinstance(v, SymList):
        return v.len != 0
    if is_z3(v):
        if z3.is_bool(v):
            return v
        return v != 0
    if v is None:
        return z3.BoolVal(False)
    if isinstance(v, (list, dict, str)):
        return z3.BoolVal(bool(v))
    return z3.BoolVal(bool(v))


class State(object):
    def __init__(self, env, rec, outs, pc, fresh):
        self.env, self.rec, self.outs, self.pc = env, rec, outs, pc
        self.fresh  = fresh        # shared counter list
        self.status = 'ok'
    def fork(self):
        s = State(dict(self.env), dict(self.rec), dict(self.outs),
                  list(self.pc), self.fresh)
        return s


class Evaluator(object):

    def __init__(self, record='rcfg', outputs=('jd_dict', 'agent_cfg'),
                 suffix='', inputs=None, input_names=(), list_names=(),
                 record_fields=(), helpers=None):
        # helpers: {name: ast.FunctionDef} of the methods of the same class:
        # `x = self.helper(...)` is inlined (path-forking), so an extract-method
        # refactoring of the encoded function stays interpretable
        self.helpers = helpers or {}
        self.depth   = 0
        self.record_fields = set(record_fields)
        self.input_names = set(input_names)
        self.list_names  = set(list_names)
        self.record  = record
        self.outputs = set(outputs)
        self.suffix  = suffix
        self.inputs  = inputs if inputs is not None else {}
        self.unsupported = []

    # -- expressions
    def ev(self, node, st):
        m = getattr(self, 'ev_' + type(node).__name__, None)
        if m is None:
            raise NotImplementedError(type(node).__name__)
        return m(node, st)

    def ev_Constant(self, n, st):
        return n.value

    def ev_Name(self, n, st):
        if n.id in st.env:
            return st.env[n.id]
        raise NotImplementedError('free name %s' % n.id)

    def ev_Attribute(self, n, st):
        if isinstance(n.value, ast.Name) and n.value.id == self.record:
            key = n.attr
            if self.record_fields and key not in self.record_fields \
                                  and key not in st.rec:
                raise NotImplementedError('record field %s' % key)
            if key not in st.rec:
                st.rec[key] = z3.Int('%s_%s' % (self.record, key))
            return st.rec[key]
        raise NotImplementedError('attribute')

    def ev_List(self, n, st):
        return [self.ev(e, st) for e in n.elts]

    def ev_Tuple(self, n, st):
        return tuple(self.ev(e, st) for e in n.elts)

    def ev_UnaryOp(self, n, st):
        v = self.ev(n.operand, st)
        if isinstance(n.op, ast.Not):
            t = truthy(v)
            if t is None: return UNK
            return z3.Not(t)
        if isinstance(n.op, ast.USub):
            if v is UNK: return UNK
            return -to_arith(v)
        raise NotImplementedError('unary')

    def ev_BinOp(self, n, st):
        a, b = self.ev(n.left, st), self.ev(n.right, st)
        if a is UNK or b is UNK:
            return UNK
        if isinstance(a, (str, list, dict)) or isinstance(b, (str, list, dict)):
            raise NotImplementedError('non-arith binop')
        a, b = unify(a, b)
        op = n.op
        if isinstance(op, ast.Add):  return a + b
        if isinstance(op, ast.Sub):  return a - b
        if isinstance(op, ast.Mult): return a * b
        if isinstance(op, ast.Div):
            a = z3.ToReal(a) if is_z3(a) and z3.is_int(a) else a
            b = z3.ToReal(b) if is_z3(b) and z3.is_int(b) else b
            if not is_z3(a) and not is_z3(b):
                return a / b
            st.pc.append(to_arith(b) != 0)          # ZeroDivisionError aside
            return a / b
        if isinstance(op, ast.FloorDiv):
            if is_z3(a) and z3.is_int(a) or is_z3(b) and z3.is_int(b):
                st.pc.append(b != 0)
                return a / b        # z3 Int division: floor for b > 0
            raise NotImplementedError('floordiv on reals')
        raise NotImplementedError('binop')

    def ev_BoolOp(self, n, st):
        vals = [self.ev(v, st) for v in n.values]
        if any(v is UNK for v in vals):
            return UNK
        # python value semantics: `a or b` is a if truthy(a) else b
        res = vals[-1]
        for v in reversed(vals[:-1]):
            t = truthy(v)
            if isinstance(res, SymList) or isinstance(v, SymList):
                # only used for truthiness
                tr = truthy(res)
                res = z3.Or(t, tr) if isinstance(n.op, ast.Or) \
                                   else z3.And(t, tr)
                continue
            x, y = unify(v, res)
            if is_z3(x) and is_z3(y) and x.sort() != y.sort():
                raise NotImplementedError('mixed boolop')
            if not is_z3(x): x = to_arith(x)
            if not is_z3(y): y = to_arith(y)
            if isinstance(n.op, ast.Or):
                res = z3.If(t, x, y)
            else:
                res = z3.If(t, y, x)
        return res

    def ev_Compare(self, n, st):
        left = self.ev(n.left, st)
        out  = []
        for op, rn in zip(n.ops, n.comparators):
            right = self.ev(rn, st)
            if left is UNK or right is UNK:
                return UNK
            if isinstance(left, (str, list, dict, SymList)) or left is None or \
               isinstance(right, (str, list, dict, SymList)) or right is None:
                raise NotImplementedError('non-arith compare')
            a, b = unify(left, right)
            if   isinstance(op, ast.Lt):    out.append(a <  b)
            elif isinstance(op, ast.LtE):   out.append(a <= b)
            elif isinstance(op, ast.Gt):    out.append(a >  b)
            elif isinstance(op, ast.GtE):   out.append(a >= b)
            elif isinstance(op, ast.Eq):    out.append(a == b)
            elif isinstance(op, ast.NotEq): out.append(a != b)
            else: raise NotImplementedError('compare op')
            left = right
        return z3.And(*out) if len(out) > 1 else out[0]

    def _fresh_int(self, st, base):
        st.fresh[0] += 1
        return z3.Int('%s_%d%s' % (base, st.fresh[0], self.suffix))

    def ev_Call(self, n, st):
        f = n.func
        name = f.id if isinstance(f, ast.Name) else \
               (f.attr if isinstance(f, ast.Attribute) else None)
        args = [self.ev(a, st) for a in n.args]
        if any(a is UNK for a in args):
            return UNK
        if name == 'len' and len(args) == 1:
            if isinstance(args[0], SymList): return args[0].len
            if isinstance(args[0], (list, dict, str)): return len(args[0])
        if name in ('max', 'min') and len(args) == 2:
            a, b = unify(*args)
            if name == 'max': return z3.If(a >= b, a, b)
            return z3.If(a <= b, a, b)
        if name in ('ceil', 'floor') and len(args) == 1:
            x = to_arith(args[0])
            if not is_z3(x):
                import math
                return math.ceil(x) if name == 'ceil' else math.floor(x)
            if z3.is_int(x):
                return x
            k = self._fresh_int(st, name)
            if name == 'ceil':
                st.pc += [z3.ToReal(k) >= x, z3.ToReal(k) - 1 < x]
            else:
                st.pc += [z3.ToReal(k) <= x, z3.ToReal(k) + 1 > x]
            return k
        if name == 'int' and len(args) == 1:
            x = to_arith(args[0])
            if is_z3(x) and z3.is_int(x): return x
            if not is_z3(x): return int(x)
            k = self._fresh_int(st, 'int')      # truncation, x >= 0 assumed
            st.pc += [x >= 0, z3.ToReal(k) <= x, z3.ToReal(k) + 1 > x]
            return k
        if name == 'bool' and len(args) == 1:
            return truthy(args[0])
        raise NotImplementedError('call %s' % name)

    # -- statements
    def _targets(self, stmt):
        names = set()
        for node in ast.walk(stmt):
            if isinstance(node, (ast.Assign, ast.AugAssign, ast.AnnAssign,
                                 ast.For, ast.With)):
                tg = []
                if isinstance(node, ast.Assign): tg = node.targets
                elif isinstance(node, (ast.AugAssign, ast.AnnAssign)):
                    tg = [node.target]
                elif isinstance(node, ast.For): tg = [node.target]
                for t in tg:
                    for sub in ast.walk(t):
                        if isinstance(sub, ast.Name):
                            names.add(sub.id)
        return names

    def input_symbol(self, name):
        key = name + self.suffix
        if key not in self.inputs:
            self.inputs[key] = z3.Int('in_' + key)
        return self.inputs[key]

    def _helper_of(self, call):
        f = call.func
        if isinstance(f, ast.Attribute) and isinstance(f.value, ast.Name) \
           and f.attr in self.helpers and self.depth < 3:
            return self.helpers[f.attr]
        return None

    def call_helper(self, fdef, call, st):
        """inline `self.helper(args)`: -> [(state, return value)]"""
        params = [a.arg for a in fdef.args.args]
        static = any(isinstance(d, ast.Name) and d.id == 'staticmethod'
                     for d in fdef.decorator_list)
        if not static and params and params[0] in ('self', 'cls'):
            params = params[1:]
        if fdef.args.vararg or fdef.args.kwarg or fdef.args.kwonlyargs:
            raise NotImplementedError('helper signature')
        vals = {}
        for p, a in zip(params, call.args):
            vals[p] = self.ev(a, st)
        for kw in call.keywords:
            if kw.arg is None or kw.arg not in params:
                raise NotImplementedError('helper keyword')
            vals[kw.arg] = self.ev(kw.value, st)
        defaults = fdef.args.defaults
        for p, d in zip(params[len(params) - len(defaults):], defaults):
            if p not in vals:
                vals[p] = self.ev(d, st)
        if set(vals) != set(params):
            raise NotImplementedError('helper arguments')
        caller_env = st.env
        st.env = dict(vals)
        self.depth += 1
        try:
            outs = self.run(fdef.body, [st])
        finally:
            self.depth -= 1
        res = []
        for s in outs:
            ret = getattr(s, 'retval', None)
            s.env = dict(caller_env)
            if s.status == 'return':
                s.status = 'ok'
                s.retval = None
            elif s.status == 'ok':
                ret = None                     # fell off the end
            res.append((s, ret))
        return res

    def assign(self, tgt, val, st):
        if isinstance(tgt, (ast.Tuple, ast.List)):
            if isinstance(val, (tuple, list)) and len(val) == len(tgt.elts):
                for t, v in zip(tgt.elts, val):
                    self.assign(t, v, st)
            else:
                for t in tgt.elts:
                    self.assign(t, UNK, st)
            return
        if isinstance(tgt, ast.Name):
            st.env[tgt.id] = val
        elif isinstance(tgt, ast.Attribute) and isinstance(tgt.value, ast.Name):
            base = tgt.value.id
            if base == self.record:
                st.rec[tgt.attr] = val
            elif base in self.outputs:
                st.outs['%s.%s' % (base, tgt.attr)] = val
        elif isinstance(tgt, ast.Subscript) and isinstance(tgt.value, ast.Name) \
                and tgt.value.id in self.outputs \
                and isinstance(tgt.slice, ast.Constant):
            st.outs['%s.%s' % (tgt.value.id, tgt.slice.value)] = val
        # other targets: ignored

    def run(self, stmts, states):
        for stmt in stmts:
            nxt = []
            for st in states:
                if st.status != 'ok':
                    nxt.append(st)
                    continue
                nxt.extend(self.step(stmt, st))
            states = nxt
        return states

    def step(self, stmt, st):
        try:
            if isinstance(stmt, ast.Assign) and len(stmt.targets) == 1 \
               and isinstance(stmt.value, ast.Call) \
               and self._helper_of(stmt.value) is not None:
                out = []
                for s, ret in self.call_helper(self._helper_of(stmt.value),
                                               stmt.value, st):
                    if s.status == 'ok':
                        self.assign(stmt.targets[0],
                                    UNK if ret is None else ret, s)
                    out.append(s)
                return out
            if isinstance(stmt, ast.Assign) and len(stmt.targets) == 1:
                tgt = stmt.targets[0]
                try:
                    val = self.ev(stmt.value, st)
                except (NotImplementedError, z3.Z3Exception, TypeError,
                        AttributeError, KeyError):
                    if isinstance(tgt, ast.Name) and tgt.id in self.list_names:
                        val = SymList(tgt.id + self.suffix)
                    elif isinstance(tgt, ast.Name) and \
                         tgt.id in self.input_names:
                        val = self.input_symbol(tgt.id)
                    else:
                        val = UNK
                self.assign(tgt, val, st)
                return [st]
            if isinstance(stmt, ast.AugAssign) and \
               isinstance(stmt.target, ast.Name):
                cur = st.env.get(stmt.target.id, UNK)
                rhs = self.ev(stmt.value, st)
                fake = ast.BinOp(left=ast.Constant(value=0), op=stmt.op,
                                 right=ast.Constant(value=0))
                if cur is UNK or rhs is UNK:
                    st.env[stmt.target.id] = UNK
                    return [st]
                a, b = unify(cur, rhs)
                if   isinstance(stmt.op, ast.Add):  v = a + b
                elif isinstance(stmt.op, ast.Sub):  v = a - b
                elif isinstance(stmt.op, ast.Mult): v = a * b
                else: raise NotImplementedError('augop')
                st.env[stmt.target.id] = v
                return [st]
            if isinstance(stmt, ast.If):
                try:
                    c = truthy(self.ev(stmt.test, st))
                except (NotImplementedError, z3.Z3Exception, TypeError,
                        AttributeError, KeyError):
                    c = None
                if c is None:
                    # uninterpretable test: no fork; whatever either branch
                    # assigns becomes unknown (raise branches are ignored)
                    for name in self._targets(stmt):
                        st.env[name] = UNK
                    return [st]
                s1, s2 = st, st.fork()
                s1.pc.append(c)
                s2.pc.append(z3.Not(c))
                return self.run(stmt.body, [s1]) + self.run(stmt.orelse, [s2])
            if isinstance(stmt, ast.Assert):
                try:
                    c = truthy(self.ev(stmt.test, st))
                except NotImplementedError:
                    c = None
                if c is None:
                    return [st]
                bad = st.fork()
                bad.pc.append(z3.Not(c))
                bad.status = 'raise'
                st.pc.append(c)
                return [st, bad]
            if isinstance(stmt, ast.Raise):
                st.status = 'raise'
                return [st]
            if isinstance(stmt, ast.Return):
                st.retval = None if stmt.value is None \
                                 else self.ev(stmt.value, st)
                st.status = 'return'
                return [st]
            if isinstance(stmt, (ast.Expr, ast.Pass, ast.Import,
                                 ast.ImportFrom)):
                return [st]
            raise NotImplementedError(type(stmt).__name__)
        except (NotImplementedError, z3.Z3Exception, TypeError,
                AttributeError, KeyError) as e:
            self.unsupported.append((getattr(stmt, 'lineno', 0), repr(e)[:80]))
            for name in self._targets(stmt):
                st.env[name] = UNK
            return [st]
